(* A second storage-wise invariant of M2 (same effect-system pattern as dlen in HeapFrame.v): heap byte buffers never exceed isize::MAX bytes,
   provided the capacities the allocator delivers (the oracle) do not.  Needed to relate the panic conditions of reserve / resize / extend of M1
   (stated with isize::MAX) to those of M2 (stated on the request), see RefineM1.v. *)
From stdpp Require Import gmap.
From Coq Require Import NArith Lia String.
From BV Require Import Base BaseLemmas BufMut Heap HeapLaws HeapPanic HeapWF HeapWFPrim HeapWFOps HeapWFMain HeapFrame.
Local Open Scope N_scope.
Arguments N.add : simpl never. Arguments N.sub : simpl never. Arguments N.ltb : simpl never. Arguments N.leb : simpl never. Arguments N.eqb : simpl never.

Definition szok (st : storage) : Prop := s_cls st = SHeap \/ s_cls st = SDangling -> s_size st <= isize_max.
Definition hsz (s : hst) : Prop := forall k st, sts s !! k = Some st -> szok st.
Definition oracle_sane (orc : oracle) : Prop := forall need, or_pick orc need <= isize_max.
Definition zeff {A} (m : M A) (s : hst) : Prop :=
  hsz s -> forall e, match m s e with OK _ s1 _ | PANIC s1 _ => hsz s1 | UB _ => True end.
Lemma zeff_ret {A} (a : A) s : zeff (mret a) s. Proof. intros D e. done. Qed.
Lemma zeff_panic {A} s : zeff (@mpanic A) s. Proof. intros D e. done. Qed.
Lemma zeff_ub {A} w s : zeff (@mub A w) s. Proof. intros D e. done. Qed.
Lemma zeff_bind {A B} (m : M A) (f : A -> M B) s : zeff m s -> (forall a s1 e e1, m s e = OK a s1 e1 -> zeff (f a) s1) -> zeff (mbind m f) s.
Proof.
  intros Hm Hf D e. unfold mbind. specialize (Hm D e). destruct (m s e) as [a s1 e1|s1 e1|wv] eqn:E; [|done|done]. by apply (Hf a s1 e e1 E Hm e1).
Qed.
Lemma zeff_bind_keeps {A B} (m : M A) (f : A -> M B) s : keeps m -> (forall a, zeff (f a) s) -> zeff (mbind m f) s.
Proof. intros Hk Hf D e. unfold mbind. specialize (Hk s e). destruct (m s e) as [a s1 e1|s1 e1|]; [subst; by apply Hf|by subst|done]. Qed.
Lemma zeff_of_sts_same {A} (m : M A) s : sts_same m -> zeff m s.
Proof. intros H D e. specialize (H s e). destruct (m s e) as [a s1 e1|s1 e1|]; [| |done]; destruct H as (H1 & _); unfold hsz; by rewrite H1. Qed.
Lemma zeff_put_st k x x' s : sts s !! k = Some x -> s_size x' = s_size x -> s_cls x' = s_cls x -> szok x -> zeff (put_st k x') s.
Proof.
  intros Hk H1 H2 Hl D e. simpl. intros k2 st2. simpl. destruct (decide (k2 = k)) as [->|?]; [rewrite lookup_insert; intros [= <-]; unfold szok; by rewrite H1, H2|]. rewrite lookup_insert_ne by done. apply D.
Qed.
Lemma zeff_get_st {B} k (f : storage -> M B) s : (forall x, sts s !! k = Some x -> szok x -> zeff (f x) s) -> zeff (mbind (get_st k) f) s.
Proof. intros H D e. unfold mbind, get_st. destruct (sts s !! k) as [x|] eqn:E; [|done]. apply (H x eq_refl (D _ _ E) D e). Qed.
Lemma zeff_mget {B} (f : hst -> M B) s : zeff (f s) s -> zeff (mbind mget f) s.
Proof. intros H D e. unfold mbind, mget. by apply H. Qed.
Create HintDb zeff.
Ltac zeff_step :=
  match goal with
  | |- zeff (mbind (get_st _) _) _ => apply zeff_get_st; intros
  | |- zeff (mbind (mcheck _ _) _) _ => apply zeff_bind_keeps; [apply keeps_mcheck|intros]
  | |- zeff (mbind (massert _) _) _ => apply zeff_bind_keeps; [apply keeps_massert|intros]
  | |- zeff (mbind (emit _) _) _ => apply zeff_bind_keeps; [apply keeps_emit|intros]
  | |- zeff (mbind (get_h _) _) _ => apply zeff_bind_keeps; [apply keeps_get_h|intros]
  | |- zeff (mbind (mret _) _) _ => apply zeff_bind_keeps; [apply keeps_ret|intros]
  | |- zeff (mbind (b_parts _) _) _ => apply zeff_bind_keeps; [apply keeps_b_parts|intros]
  | |- zeff (mbind (m_parts _) _) _ => apply zeff_bind_keeps; [apply keeps_m_parts|intros]
  | |- zeff (mbind (mread _ _ _) _) _ => apply zeff_bind_keeps; [apply keeps_mread|intros]
  | |- zeff (mbind mget _) _ => apply zeff_mget
  | |- zeff (mbind _ _) _ => apply zeff_bind; [|intros]
  | |- zeff (mret _) _ => apply zeff_ret
  | |- zeff mpanic _ => apply zeff_panic
  | |- zeff (mub _) _ => apply zeff_ub
  | |- zeff (emit _) _ => apply zeff_of_sts_same, ss_emit
  | |- zeff (get_st _) _ => apply zeff_of_sts_same, ss_get_st
  | |- zeff (get_h _) _ => apply zeff_of_sts_same, ss_get_h
  | |- zeff (put_h _ _) _ => apply zeff_of_sts_same, ss_put_h
  | |- zeff (del_h _) _ => apply zeff_of_sts_same, ss_del_h
  | |- zeff (new_h _) _ => apply zeff_of_sts_same, ss_new_h
  | |- zeff (massert _) _ => apply zeff_of_sts_same, ss_massert
  | |- zeff (mcheck _ _) _ => apply zeff_of_sts_same, ss_mcheck
  | |- zeff (b_parts _) _ => apply zeff_of_sts_same, ss_b_parts
  | |- zeff (m_parts _) _ => apply zeff_of_sts_same, ss_m_parts
  | |- zeff mget _ => apply zeff_of_sts_same, ss_mget
  | H : sts ?s !! ?k = Some ?x, Hl : szok ?x |- zeff (put_st ?k _) ?s => eapply (zeff_put_st k x _ s H); [reflexivity|reflexivity|exact Hl]
  | |- zeff (if ?c then _ else _) _ => destruct c eqn:?
  | |- zeff (match ?x with _ => _ end) _ => destruct x eqn:?
  | |- zeff (let '(_, _) := ?p in _) _ => destruct p
  end.
Ltac zeff_auto := repeat (zeff_step || (progress eauto with zeff)).
Lemma zeff_upd_ctrl k c s : zeff (upd_st k (with_ctrl c)) s. Proof. unfold upd_st. zeff_auto. Qed.
Lemma zeff_inc_rc k s : zeff (inc_rc k) s. Proof. unfold inc_rc. zeff_auto. Qed.
Lemma zeff_get_rc k s : zeff (get_rc k) s. Proof. unfold get_rc. zeff_auto. Qed.
Lemma zeff_mread k o l s : zeff (mread k o l) s. Proof. apply zeff_of_sts_same. intros s0 e. pose proof (keeps_mread k o l s0 e) as H. destruct (mread k o l s0 e); try done; by subst. Qed.
Lemma zeff_free_buf k sz s : zeff (free_buf k sz) s. Proof. unfold free_buf. zeff_auto. Qed.
Global Hint Resolve zeff_upd_ctrl zeff_inc_rc zeff_get_rc zeff_mread zeff_free_buf : zeff.
Lemma zeff_drop_vec k c s : zeff (drop_vec k c) s. Proof. unfold drop_vec. zeff_auto. Qed.
Global Hint Resolve zeff_drop_vec : zeff.
Lemma zeff_mwrite k o bs s : zeff (mwrite k o bs) s. Proof. unfold mwrite. zeff_auto. Qed.
Lemma zeff_mput_owner s o w' : zeff (mput (set_owners (<[o := w']>) s)) s.
Proof. intros D e. simpl. exact D. Qed.
Lemma zeff_release k s : zeff (release k) s.
Proof.
  unfold release. apply zeff_get_st. intros x Hx Hl. destruct (s_ctrl x) eqn:Hc; try (apply zeff_ub).
  - zeff_auto.
  - zeff_auto.
  - zeff_auto.
  - apply zeff_bind_keeps; [apply keeps_mcheck|intros _]. destruct (_ =? 1); [|zeff_auto].
    apply zeff_mget. destruct (owners s !! owner) as [w|] eqn:Ho; [|apply zeff_ub].
    apply zeff_bind_keeps; [apply keeps_mcheck|intros _].
    apply zeff_bind; [apply zeff_mput_owner|]. intros [] s1 e e1 E. injection E as <- _.
    apply zeff_bind_keeps; [apply keeps_emit|intros _]. zeff_auto.
Qed.
Global Hint Resolve zeff_mwrite zeff_release : zeff.
Lemma zeff_alloc_buf size init s : zeff (alloc_buf size init) s.
Proof.
  intros D e. unfold alloc_buf, mbind, mget. destruct (size =? 0) eqn:Ez.
  - simpl. intros k st. simpl. destruct (decide (k = xI (next_pseudo s))) as [->|?]; [rewrite lookup_insert; intros [= <-]; unfold szok; simpl; unfold isize_max; lia|].
    rewrite lookup_insert_ne by done. apply D.
  - destruct (isize_max <? size) eqn:Ei; [done|]. simpl. intros k st. simpl.
    destruct (decide (k = xO (next_real s))) as [->|?]; [rewrite lookup_insert; intros [= <-]; unfold szok; simpl; lia|]. rewrite lookup_insert_ne by done. apply D.
Qed.
Global Hint Resolve zeff_alloc_buf : zeff.
Lemma zeff_realloc_buf orc k oldcap keep need s : oracle_sane orc -> zeff (realloc_buf orc k oldcap keep need) s.
Proof.
  intros Ho. unfold realloc_buf. destruct (isize_max <? need) eqn:Ei; [apply zeff_panic|]. apply zeff_get_st. intros x Hx Hl. apply zeff_mget.
  pose proof (Ho need) as Hon.
  destruct (s_cls x) eqn:Hcl; try apply zeff_ub.
  - repeat (apply zeff_bind_keeps; [apply keeps_mcheck|intros _]).
    intros D e. unfold mbind, mput, emit, mret. simpl. intros k2 st2. simpl.
    destruct (decide (k2 = xO (next_real s))) as [->|?]; [rewrite lookup_insert; intros [= <-]; unfold szok; simpl; lia|]. rewrite lookup_insert_ne by done.
    destruct (decide (k2 = k)) as [->|?]; [rewrite lookup_insert; intros [= <-]; unfold szok in *; simpl; exact Hl|]. rewrite lookup_insert_ne by done. apply D.
  - apply zeff_bind; [apply zeff_alloc_buf|]. intros k' s1 e e1 Ea. apply zeff_bind; [apply zeff_upd_ctrl|]. intros [] s2 e2 e3 Eu.
    apply zeff_bind; [|intros; apply zeff_ret].
    intros D e4. simpl. intros k2 st2. simpl. destruct (decide (k2 = k)) as [->|?]; [rewrite lookup_insert; intros [= <-]; unfold szok in *; simpl; exact Hl|]. rewrite lookup_insert_ne by done. apply D.
Qed.
Lemma zeff_copy_to_front k o l s : zeff (copy_to_front k o l) s. Proof. unfold copy_to_front. zeff_auto. Qed.
Global Hint Resolve zeff_copy_to_front : zeff.
Lemma zeff_bytes_from_vec k l c s : zeff (bytes_from_vec k l c) s. Proof. unfold bytes_from_vec. zeff_auto. Qed.
Lemma zeff_shallow_clone_arc k o l s : zeff (shallow_clone_arc k o l) s. Proof. unfold shallow_clone_arc. zeff_auto. Qed.
Global Hint Resolve zeff_bytes_from_vec zeff_shallow_clone_arc : zeff.
Lemma zeff_bytes_clone h s : zeff (bytes_clone h) s. Proof. unfold bytes_clone. zeff_auto. Qed.
Lemma zeff_bytes_drop_rep x s : zeff (bytes_drop_rep x) s. Proof. unfold bytes_drop_rep. zeff_auto. Qed.
Lemma zeff_to_vec bs s : zeff (to_vec bs) s. Proof. unfold to_vec. zeff_auto. Qed.
Lemma zeff_bytes_contents x s : zeff (bytes_contents x) s. Proof. unfold bytes_contents. zeff_auto. Qed.
Lemma zeff_adv_unchecked c x s : zeff (adv_unchecked c x) s. Proof. unfold adv_unchecked. zeff_auto. Qed.
Global Hint Resolve zeff_bytes_clone zeff_bytes_drop_rep zeff_to_vec zeff_bytes_contents zeff_adv_unchecked : zeff.
Lemma zeff_shared_to_vec k o l s : zeff (shared_to_vec k o l) s. Proof. unfold shared_to_vec. zeff_auto. Qed.
Lemma zeff_shared_to_mut k o l s : zeff (shared_to_mut k o l) s. Proof. unfold shared_to_mut, from_vec. zeff_auto. Qed.
Global Hint Resolve zeff_shared_to_vec zeff_shared_to_mut : zeff.
Lemma zeff_bytes_into_vec_rep x s : zeff (bytes_into_vec_rep x) s. Proof. unfold bytes_into_vec_rep. zeff_auto. Qed.
Lemma zeff_bytes_into_mut_rep x s : zeff (bytes_into_mut_rep x) s. Proof. unfold bytes_into_mut_rep, from_vec. zeff_auto. Qed.
Lemma zeff_bytes_is_unique_rep x s : zeff (bytes_is_unique_rep x) s. Proof. unfold bytes_is_unique_rep. zeff_auto. Qed.
Lemma zeff_promote rc x s : zeff (promote rc x) s. Proof. unfold promote. zeff_auto. Qed.
Global Hint Resolve zeff_bytes_into_vec_rep zeff_bytes_into_mut_rep zeff_bytes_is_unique_rep zeff_promote : zeff.
Lemma zeff_m_shallow_clone x s : zeff (m_shallow_clone x) s. Proof. unfold m_shallow_clone. zeff_auto. Qed.
Lemma zeff_m_drop_rep x s : zeff (m_drop_rep x) s. Proof. unfold m_drop_rep. zeff_auto. Qed.
Lemma zeff_m_freeze_rep x s : zeff (m_freeze_rep x) s. Proof. unfold m_freeze_rep. zeff_auto. Qed.
Lemma zeff_m_into_vec_rep x s : zeff (m_into_vec_rep x) s. Proof. unfold m_into_vec_rep. zeff_auto. Qed.
Global Hint Resolve zeff_m_shallow_clone zeff_m_drop_rep zeff_m_freeze_rep zeff_m_into_vec_rep : zeff.
Section Orc.
Variable orc : oracle.
Hypothesis Ho : oracle_sane orc.
Lemma zeff_realloc_buf' k oldcap keep need s : zeff (realloc_buf orc k oldcap keep need) s. Proof. by apply zeff_realloc_buf. Qed.
Hint Resolve zeff_realloc_buf' : zeff.
Lemma zeff_reserve_inner n al x s : zeff (reserve_inner orc n al x) s. Proof. unfold reserve_inner. zeff_auto. Qed.
Hint Resolve zeff_reserve_inner : zeff.
Lemma zeff_m_reserve n x s : zeff (m_reserve orc n x) s. Proof. unfold m_reserve. zeff_auto. Qed.
Lemma zeff_m_try_reclaim n x s : zeff (m_try_reclaim orc n x) s. Proof. unfold m_try_reclaim. zeff_auto. Qed.
Hint Resolve zeff_m_reserve zeff_m_try_reclaim : zeff.
Lemma zeff_m_extend bs x s : zeff (m_extend orc bs x) s. Proof. unfold m_extend. zeff_auto. Qed.
Hint Resolve zeff_m_extend : zeff.
Lemma zeff_bytes_slice h b e s : zeff (bytes_slice h b e) s. Proof. unfold bytes_slice. zeff_auto. Qed.
Lemma zeff_bytes_split_off_core h a s : zeff (bytes_split_off_core h a) s. Proof. unfold bytes_split_off_core, empty_with_ptr. zeff_auto. Qed.
Hint Resolve zeff_bytes_slice zeff_bytes_split_off_core : zeff.
Lemma zeff_bytes_split_off h a s : zeff (bytes_split_off h a) s. Proof. unfold bytes_split_off. zeff_auto. Qed.
Lemma zeff_bytes_split_to h a s : zeff (bytes_split_to h a) s. Proof. unfold bytes_split_to, empty_with_ptr. zeff_auto. Qed.
Lemma zeff_bytes_truncate h l s : zeff (bytes_truncate h l) s. Proof. unfold bytes_truncate. zeff_auto. Qed.
Lemma zeff_m_split_off h a s : zeff (m_split_off h a) s. Proof. unfold m_split_off. zeff_auto. Qed.
Lemma zeff_m_split_to h a s : zeff (m_split_to h a) s. Proof. unfold m_split_to. zeff_auto. Qed.
Hint Resolve zeff_bytes_split_off zeff_bytes_split_to zeff_bytes_truncate zeff_m_split_off zeff_m_split_to : zeff.
Lemma zeff_extend_loop h d : forall (acc : M unit) s, zeff acc s ->
  zeff (fold_left (fun (acc : M unit) b => acc;; let! y := get_h h in let! y1 := m_extend orc [b] y in put_h h y1) d acc) s.
Proof.
  induction d as [|b d IH]; intros acc s Hacc; simpl; [done|]. apply IH. apply zeff_bind; [done|]. intros. zeff_auto.
Qed.
Lemma zeff_hstep o s : zeff (hstep orc o) s.
Proof.
  destruct o; cbn [hstep]; try (by zeff_auto).
  - (* from_static *)
    apply zeff_mget. apply zeff_bind; [|intros; zeff_auto]. destruct (lenN d =? 0); [apply zeff_ret|].
    intros D e. simpl. intros k st. simpl. destruct (decide (k = xO (next_real s))) as [->|?]; [rewrite lookup_insert; intros [= <-]; unfold szok; simpl; by intros [|]|]. rewrite lookup_insert_ne by done. apply D.
  - (* from_owner *)
    apply zeff_mget. apply zeff_bind.
    { intros D e. simpl. intros k st. simpl. match goal with |- <[?k0 := _]> _ !! _ = _ -> _ => destruct (decide (k = k0)) as [->|?] end; [rewrite lookup_insert; intros [= <-]; unfold szok; simpl; by intros [|]|]. rewrite lookup_insert_ne by done. apply D. }
    intros [] s1 e e1 _. apply zeff_bind; [destruct (lenN d =? 0); zeff_auto|]. intros. apply zeff_bind_keeps; [apply keeps_emit|intros _].
    apply zeff_mget. destruct (owners _ !! _); [|zeff_auto]. apply zeff_bind; [apply zeff_bind; [apply zeff_mput_owner|intros; zeff_auto]|]. intros. destruct panics; zeff_auto.
  - (* extend from an iterator *)
    apply zeff_bind_keeps; [apply keeps_get_h|intros x]. apply zeff_bind; [zeff_auto|]. intros. apply zeff_bind; [zeff_auto|]. intros.
    apply zeff_bind; [apply zeff_extend_loop; apply zeff_ret|intros; zeff_auto].
Qed.
End Orc.
Lemma hsz0 odd : hsz (hst0 odd). Proof. intros k st H. unfold hst0 in H. cbn [sts] in H. by apply lookup_empty_Some in H. Qed.
Lemma reach_hsz orcs n s : (forall i, oracle_sane (orcs i)) -> reach orcs n s -> hsz s.
Proof.
  intros Ho. induction 1 as [odd|n s o r s' e Hr IH Hok Hrun|n s o s' e Hr IH Hok Hrun]; [apply hsz0| |].
  - pose proof (zeff_hstep (orcs n) (Ho n) o s IH []) as H. unfold run_op in Hrun. by rewrite Hrun in H.
  - pose proof (zeff_hstep (orcs n) (Ho n) o s IH []) as H. unfold run_op in Hrun. by rewrite Hrun in H.
Qed.

(* Laws of M5, part 2: put(impl Buf) for arbitrary source trees (M4) and target trees; typed puts by NAME. *)
From stdpp Require Import list.
From Coq Require Import NArith ZArith Lia ZifyN ZifyNat ZifyBool String.
From BV Require Import Base BaseLemmas Buf BufSpec BufLaws BufLaws2 Codec CodecLemmas EncLemmas BufMut BufMutSpec BufMutLaws.
Local Open Scope N_scope.
Arguments N.add : simpl never. Arguments N.sub : simpl never. Arguments N.min : simpl never. Arguments N.mul : simpl never.
Arguments N.ltb : simpl never. Arguments N.leb : simpl never. Arguments N.eqb : simpl never.

Section Grow.
  Variable grow : N -> N -> N -> N.
  Variable Rv Rb R : N.
  Hypothesis grow_ok : forall len cap add, len + add <= isize_max -> len + add <= grow len cap add <= isize_max.
  Hypothesis Rv_pos : 0 < Rv. Hypothesis Rb_pos : 0 < Rb.
  Hypothesis Rv_le : Rv <= R. Hypothesis Rb_le : Rb <= R.
  Local Notation chunk_mut_ok' := (chunk_mut_ok grow Rv Rb R grow_ok Rv_pos Rb_pos Rv_le Rb_le).
  Local Notation advance_mut_ok' := (advance_mut_ok grow Rv Rb R grow_ok Rv_pos Rb_pos Rv_le Rb_le).
  Local Notation reserve_some' := (reserve_some grow Rv Rb R grow_ok Rv_pos Rb_pos Rv_le Rb_le).

  Lemma put_buf_loop_ok fuel : forall k s t, wf s -> headroom R k t -> lenN (den s) <= k -> lenN (den s) <= roomZ t ->
    (N.to_nat (lenN (den s)) < fuel)%nat ->
    exists t', put_buf_loop grow Rv Rb fuel s t = Ok (adv (lenN (den s)) s, t') /\ ecap t' = ecap (wr (den s) t) /\ headroom R (k - lenN (den s)) t'.
  Proof.
    induction fuel as [|f IH]; intros k s t Hwf Hh Hk Hr Hf; [lia|].
    cbn [put_buf_loop]. rewrite has_remaining_den by done.
    destruct (lenN (den s) =? 0) eqn:E0; cbn [negb].
    - assert (den s = []) as Hd by (apply lenN_zero; lia). rewrite Hd. change (lenN (@nil byte)) with 0.
      rewrite adv_zero by done. exists t. rewrite wr_nil. split; [done|]. split; [done|]. eapply headroom_mono; [|exact Hh]. lia.
    - pose proof (chunk_prefix s Hwf) as Hp. pose proof (chunk_nonempty s Hwf ltac:(lia)) as Hne.
      pose proof (prefix_lenN _ _ Hp) as Hlen.
      destruct (chunk_mut_ok' k t Hh) as (t1 & Hc & He1 & Hh1 & Hpz). rewrite Hc. cbn [bind].
      specialize (Hpz ltac:(lia)).
      set (cnt := N.min (lenN (chunk s)) (spare t1)).
      assert (lenN (firstnN cnt (chunk s)) = cnt) as Hlf by (rewrite lenN_firstnN; lia).
      rewrite (advance_mut_ok' k) by (done || lia). cbn [bind].
      rewrite advance_ok by (done || lia). cbn [bind].
      assert (roomZ t1 = roomZ t) as Hrz by by apply ecap_eq_roomZ.
      pose proof (spare_le_roomZ R k t1 Hh1) as Hsp.
      destruct (IH (k - cnt) (adv cnt s) (wr (firstnN cnt (chunk s)) t1)) as (t' & Hl & He & Hh').
      + apply wf_adv; [done|lia].
      + rewrite <- Hlf at 1. apply headroom_wr; [done|lia|lia].
      + rewrite len_adv. lia.
      + rewrite roomZ_wr by lia. rewrite len_adv. lia.
      + rewrite len_adv. lia.
      + rewrite len_adv, den_adv in *. rewrite Hl. exists t'. split.
        * rewrite adv_add. replace (cnt + (lenN (den s) - cnt)) with (lenN (den s)) by lia. done.
        * split; [|eapply headroom_mono; [|exact Hh']; lia].
          rewrite He. rewrite !ecap_wr, He1. rewrite wr_app by (rewrite roomZ_ecap; lia). f_equal.
          rewrite (firstnN_prefix_mono cnt _ _ Hp) by lia. apply firstnN_skipN.
  Qed.

  Lemma extend_loop_ok fuel : forall k s d c, wf s -> lenN d <= c -> c <= isize_max -> lenN d + k + R <= isize_max -> lenN (den s) <= k ->
    (N.to_nat (lenN (den s)) < fuel)%nat ->
    exists c', extend_loop grow fuel s d c = Ok (adv (lenN (den s)) s, d ++ den s, c') /\ lenN (d ++ den s) <= c' /\ c' <= isize_max.
  Proof.
    induction fuel as [|f IH]; intros k s d c Hwf H1 H2 H3 Hk Hf; [lia|].
    cbn [extend_loop]. rewrite has_remaining_den by done.
    destruct (lenN (den s) =? 0) eqn:E0; cbn [negb].
    - assert (den s = []) as Hd by (apply lenN_zero; lia). rewrite Hd. change (lenN (@nil byte)) with 0.
      rewrite adv_zero by done. rewrite app_nil_r. exists c. done.
    - pose proof (chunk_prefix s Hwf) as Hp. pose proof (chunk_nonempty s Hwf ltac:(lia)) as Hne.
      pose proof (prefix_lenN _ _ Hp) as Hlen.
      destruct (reserve_some' (lenN d) c (lenN (chunk s))) as (c1 & Hr & Hc1 & Hc2); [lia..|]. rewrite Hr.
      rewrite advance_ok by (done || lia). cbn [bind].
      destruct (IH (k - lenN (chunk s)) (adv (lenN (chunk s)) s) (d ++ chunk s) c1) as (c' & Hl & Hb1 & Hb2).
      + apply wf_adv; [done|lia].
      + rewrite lenN_app. lia.
      + done.
      + rewrite lenN_app. lia.
      + rewrite len_adv. lia.
      + rewrite len_adv. lia.
      + rewrite len_adv, den_adv in *. rewrite Hl. exists c'.
        assert (chunk s ++ skipN (lenN (chunk s)) (den s) = den s) as Hcs.
        { destruct Hp as [r Hr']. rewrite Hr'. rewrite skipN_app_ge by lia. replace (lenN (chunk s) - lenN (chunk s)) with 0 by lia. by rewrite skipN_0. }
        rewrite <- app_assoc in *. rewrite Hcs in *. split; [|done]. rewrite adv_add. replace (lenN (chunk s) + (lenN (den s) - lenN (chunk s))) with (lenN (den s)) by lia. done.
  Qed.

  (* put(src): the whole source is consumed and exactly its bytes are appended (or the call panics when they do not fit) *)
  Theorem put_buf_spec k s t : wf s -> headroom R k t -> lenN (den s) <= k -> k <= isize_max ->
    if roomZ t <? lenN (den s) then put_buf grow Rv Rb s t = Panic
    else exists t', put_buf grow Rv Rb s t = Ok (adv (lenN (den s)) s, t') /\ ecap t' = ecap (wr (den s) t).
  Proof.
    intros Hwf Hh Hk Hki. pose proof isize_lt_usize.
    assert (forall t, (forall d c, t <> TLeaf (TVec d c)) -> (forall d c, t <> TLeaf (TBytesMut d c)) -> headroom R k t ->
            if roomZ t <? lenN (den s) then put_buf grow Rv Rb s t = Panic
            else exists t', put_buf grow Rv Rb s t = Ok (adv (lenN (den s)) s, t') /\ ecap t' = ecap (wr (den s) t)) as Hdefault.
    { intros t0 Hn1 Hn2 Hh0.
      assert (put_buf grow Rv Rb s t0 = if remaining_mut t0 <? remaining s then Panic else put_buf_loop grow Rv Rb (S (N.to_nat (remaining s))) s t0) as ->.
      { destruct t0 as [[d c|d c| |]| | |]; try done; [by destruct (Hn1 d c)|by destruct (Hn2 d c)]. }
      rewrite remaining_den by done. rewrite (rm_roomZ R k t0 Hh0).
      destruct (roomZ t0 <? lenN (den s)) eqn:E.
      - replace (N.min (roomZ t0) usize_max <? lenN (den s)) with true by lia. done.
      - replace (N.min (roomZ t0) usize_max <? lenN (den s)) with false by lia.
        destruct (put_buf_loop_ok (S (N.to_nat (lenN (den s)))) k s t0) as (t' & Hl & He & _); [done|done|lia|lia|lia|]. eauto. }
    destruct t as [[d c|d c|w r|w r]|a b|n x|x]; try (apply Hdefault; done).
    - simpl in Hh. simpl roomZ. replace (isize_max - lenN d <? lenN (den s)) with false by lia.
      cbn [put_buf]. rewrite remaining_den by done.
      destruct (reserve_some' (lenN d) c (lenN (den s))) as (c1 & Hr & Hc1 & Hc2); [lia..|]. rewrite Hr.
      destruct (extend_loop_ok (S (N.to_nat (lenN (den s)))) k s d c1) as (c' & Hl & _); [done|lia|lia|lia|lia|lia|].
      rewrite Hl. cbn [bind]. eexists. split; [done|]. done.
    - simpl in Hh. simpl roomZ. replace (usize_max - lenN d <? lenN (den s)) with false by lia.
      cbn [put_buf]. rewrite remaining_den by done.
      destruct (extend_loop_ok (S (N.to_nat (lenN (den s)))) k s d c) as (c' & Hl & _); [done|lia|lia|lia|lia|lia|].
      rewrite Hl. cbn [bind]. eexists. split; [done|]. done.
  Qed.

  (* typed writes by NAME *)
  Section Tables.
    Variable putters : list (string * gdesc).
    Variable fwd : list (string * string).
    Hypothesis Hok : put_tables_ok putters fwd = true.
    Lemma passoc_In {A} nm (l : list (string * A)) v : BufMut.assoc nm l = Some v -> In (nm, v) l.
    Proof.
      induction l as [|[k' v'] r IH]; simpl; [done|]. destruct (String.eqb nm k') eqn:E.
      - apply String.eqb_eq in E. intros H; inversion H; subst. by left.
      - intros H. right. by apply IH.
    Qed.
    Lemma put_table_entry name d : BufMut.assoc name putters = Some d -> spec_of_putter name = Some d.
    Proof.
      intros H. apply passoc_In in H. unfold put_tables_ok in Hok. apply andb_true_iff in Hok as [H1 _].
      rewrite forallb_forall in H1. specialize (H1 _ H). unfold putter_entry_ok in H1. simpl in H1.
      destruct (spec_of_putter name) as [d'|]; [|done]. by rewrite (gdesc_eqb_eq _ _ H1).
    Qed.
    Lemma put_fwd_entry name t : BufMut.assoc name fwd = Some t -> t = name.
    Proof.
      intros H. apply passoc_In in H. unfold put_tables_ok in Hok. apply andb_true_iff in Hok as [_ H2].
      rewrite forallb_forall in H2. specialize (H2 _ H). unfold BufMut.fwd_entry_ok in H2. simpl in H2. by apply String.eqb_eq in H2.
    Qed.
    (* every put_X of the table = put_slice of the encoding its NAME denotes (or a panic for nbytes > 8) *)
    Theorem put_correct name d z nbytes t : BufMut.assoc name putters = Some d ->
      put grow Rv Rb putters fwd name z nbytes t =
        Some (if (match g_kind d with GKVar => 8 <? nbytes | _ => false end) then Panic
              else put_slice grow Rv Rb (enc (g_endian d) (put_size d nbytes) z) t).
    Proof.
      intros Hd. pose proof (put_table_entry _ _ Hd) as Hs.
      assert (g_kind d = GK8 -> g_size d = 1) as H8 by by apply (spec_of_putter_k8 name).
      assert (forall t, put_body grow Rv Rb d z nbytes t =
                (if (match g_kind d with GKVar => 8 <? nbytes | _ => false end) then Panic
                 else put_slice grow Rv Rb (enc (g_endian d) (put_size d nbytes) z) t)) as Hbody.
      { intros t0. destruct (match g_kind d with GKVar => 8 <? nbytes | _ => false end) eqn:E.
        - unfold put_body. destruct (g_kind d); try done. by rewrite E.
        - apply put_body_bytes; [done|]. intros Hv. rewrite Hv in E. lia. }
      induction t as [l|a IHa b IHb|n x IH|x IH]; cbn [put]; rewrite ?Hd; cbn [option_map]; try (by rewrite Hbody).
      destruct (BufMut.assoc name fwd) as [tg|] eqn:Ef.
      - apply put_fwd_entry in Ef. subst tg. rewrite IH. cbn [option_map]. f_equal.
        destruct (match g_kind d with GKVar => 8 <? nbytes | _ => false end); [done|]. done.
      - by rewrite Hbody.
    Qed.
  End Tables.
End Grow.

(* the growth oracle the evaluators use satisfies grow_ok once clamped (std never hands out more than isize::MAX) *)
Lemma std_grow_ok len cap add : len + add <= isize_max -> len + add <= std_grow len cap add <= isize_max.
Proof. intros H. unfold std_grow. lia. Qed.

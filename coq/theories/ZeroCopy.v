(* C07 on M2, the address half: a sharing operation moves no byte of any storage, and every non-empty handle it produces or updates starts at
   the source handle's address plus a logical offset d, inside the source's window - so it reads exactly bytes [d, d+len) of what the source read. *)
From stdpp Require Import gmap.
From Coq Require Import NArith Lia String.
From BV Require Import Base BaseLemmas BufMut Heap HeapLaws HeapPanic HeapWF HeapWFPrim HeapWFOps HeapWFMain HeapFrame SizeInv Spec RefineM1.
Local Open Scope N_scope.
Arguments N.add : simpl never. Arguments N.sub : simpl never. Arguments N.ltb : simpl never. Arguments N.leb : simpl never. Arguments N.eqb : simpl never.

Definition h_ofs (y : handle) : N := match y with HB _ o _ _ _ | HM _ o _ _ _ => o | HV _ _ _ => 0 end.
(* the window a handle may address: its capacity for a BytesMut / Vec, its length for a Bytes *)
Definition h_win (y : handle) : N := match y with HB _ _ l _ _ => l | HM _ _ _ c _ => c | HV _ _ c => c end.
(* z is empty, or it starts d bytes into x's window and ends inside it: same storage (= same allocation), address of x + d *)
Definition derived (x z : handle) : Prop := h_len z = 0 \/ exists d, stor z = stor x /\ h_ofs z = h_ofs x + d /\ d + h_len z <= h_win x.
Definition zc_op (o : op) : bool := sharing_op o && match o with OMWrite _ _ _ => false | _ => true end.
Definition zc_post (o : op) (s s' : hst) : Prop :=
  dsame nK s s' /\
  forall h' z, hs s' !! h' = Some z -> hs s !! h' = Some z \/ (forall hx, ~ tch o hx) \/ exists hx x, tch o hx /\ hs s !! hx = Some x /\ derived x z.

Lemma derived_refl x : h_len x <= h_win x -> derived x x. Proof. intros H. right. exists 0. split; [done|]. split; [lia|lia]. Qed.
Lemma derived_hb ko o l vt a o' l' vt' a' d : o' = o + d -> d + l' <= l -> derived (HB ko o l vt a) (HB ko o' l' vt' a').
Proof. intros -> H. right. exists d. done. Qed.
Lemma derived_hm k o l c kd o' l' c' kd' d : o' = o + d -> d + l' <= c -> derived (HM k o l c kd) (HM k o' l' c' kd').
Proof. intros -> H. right. exists d. done. Qed.
Lemma derived_empty x z : h_len z = 0 -> derived x z. Proof. by left. Qed.

Section Z.
Variable orc : oracle.
(* handle tables after the operation, by shape *)
Lemma zc_upd o s s' h x yh : dsame nK s s' -> (forall h', tch o h' <-> h' = h) -> hs s !! h = Some x -> hs s' = <[h := yh]> (hs s) -> derived x yh -> zc_post o s s'.
Proof.
  intros D HT Hx Hh Hd. split; [done|]. intros h' z Hz. rewrite Hh in Hz. destruct (decide (h' = h)) as [->|Hne]; [|left; by rewrite lookup_insert_ne in Hz].
  rewrite lookup_insert in Hz. injection Hz as <-. right. right. exists h, x. split; [by apply HT|done].
Qed.
Lemma zc_upd_new o s s' h x yh y2 : dsame nK s s' -> (forall h', tch o h' <-> h' = h) -> hs s !! h = Some x -> hs s' = <[next_h s := y2]> (<[h := yh]> (hs s)) ->
  derived x yh -> derived x y2 -> zc_post o s s'.
Proof.
  intros D HT Hx Hh Hd Hd2. split; [done|]. intros h' z Hz. rewrite Hh in Hz. destruct (decide (h' = next_h s)) as [->|Hn].
  { rewrite lookup_insert in Hz. injection Hz as <-. right. right. exists h, x. split; [by apply HT|done]. }
  rewrite lookup_insert_ne in Hz by done. destruct (decide (h' = h)) as [->|Hne]; [|left; by rewrite lookup_insert_ne in Hz].
  rewrite lookup_insert in Hz. injection Hz as <-. right. right. exists h, x. split; [by apply HT|done].
Qed.
Lemma zc_del o s s' h : dsame nK s s' -> hs s' = delete h (hs s) -> zc_post o s s'.
Proof. intros D Hh. split; [done|]. intros h' z Hz. rewrite Hh in Hz. apply lookup_delete_Some in Hz as [_ Hz]. by left. Qed.
Lemma zc_del_new o s s' h x y2 : dsame nK s s' -> (forall h', tch o h' <-> h' = h) -> hs s !! h = Some x -> hs s' = <[next_h s := y2]> (delete h (hs s)) -> derived x y2 -> zc_post o s s'.
Proof.
  intros D HT Hx Hh Hd. split; [done|]. intros h' z Hz. rewrite Hh in Hz. destruct (decide (h' = next_h s)) as [->|Hn].
  { rewrite lookup_insert in Hz. injection Hz as <-. right. right. exists h, x. split; [by apply HT|done]. }
  rewrite lookup_insert_ne in Hz by done. apply lookup_delete_Some in Hz as [_ Hz]. by left.
Qed.
Lemma zc_new0 o s s' y2 : dsame nK s s' -> (forall hx, ~ tch o hx) -> hs s' = <[next_h s := y2]> (hs s) -> zc_post o s s'.
Proof.
  intros D HT Hh. split; [done|]. intros h' z Hz. rewrite Hh in Hz. destruct (decide (h' = next_h s)) as [->|Hn]; [right; by left|]. rewrite lookup_insert_ne in Hz by done. by left.
Qed.
Lemma zc_dsame o s r s' e' : WF s -> op_ok s o -> zc_op o = true -> run_op orc o s = OK r s' e' -> dsame nK s s'.
Proof.
  intros W Hok Hz E. pose proof W as [L Hf]. pose proof (lwf_fresh _ _ L) as Fs.
  assert (deff nK (hstep orc o) s) as Hd.
  { destruct o; try discriminate Hz; cbn [hstep]; try (by deff_auto).
    eapply deff_weaken; [|by apply (deff_hstep_sole orc (OBFromStatic d) s W Hok)]. by intros k (h & x & [] & _). }
  by destruct (deff_run nK _ _ _ _ _ _ Hd Fs E).
Qed.
Ltac tch1 := let h' := fresh in intros h'; simpl; split; [by intros ->|by intros ->].
Ltac zstart W Hok E D :=
  pose proof (zc_dsame _ _ _ _ _ W Hok eq_refl E) as D; unfold run_op in E; cbn [hstep] in E.
(* split_off on a Bytes: both halves are windows of the original *)
Lemma split_off_core_addr h at_ s ev y s1 e1 ko o l vt a : sfresh s -> hs s !! h = Some (HB ko o l vt a) -> bytes_split_off_core h at_ s ev = OK y s1 e1 ->
  exists yh, hs s1 = <[h := yh]> (hs s) /\ next_h s1 = next_h s /\ derived (HB ko o l vt a) yh /\ derived (HB ko o l vt a) y.
Proof.
  intros Fs Hx E. unfold bytes_split_off_core in E. binv E. inv_get_h R. rewrite Hx in R. injection R as <-. binv E. apply mret_inv in R as (-> & -> & ->).
  destruct (at_ =? l) eqn:E1.
  - apply mret_inv in E as (-> & <- & _). exists (HB ko o l vt a). rewrite insert_id by done. split_and!; try done; [apply derived_refl; simpl; lia|by apply derived_empty].
  - destruct (at_ =? 0) eqn:E2.
    + binv E. apply put_h_inv in R as (-> & _). apply mret_inv in E as (-> & -> & _). exists (empty_with_ptr ko o). split_and!; try done; [by apply derived_empty|apply derived_refl; simpl; lia].
    + binv E. inv_assert R. binv E. destruct (bytes_clone_inv _ _ _ _ _ _ _ _ _ _ _ Fs Hx R) as (vt' & a' & a'' & -> & Hh1 & Hn1 & D1 & F1).
      binv E. inv_get_h R0. rewrite Hh1, lookup_insert in R0. injection R0 as <-. binv E. apply mret_inv in R0 as (-> & -> & ->).
      binv E. apply put_h_inv in R0 as (-> & _). apply mret_inv in E as (-> & -> & _).
      exists (HB ko o at_ vt a''). cbn [hs set_hs next_h]. rewrite Hh1, insert_insert. split_and!; try done.
      * apply (derived_hb _ _ _ _ _ _ _ _ _ 0); lia.
      * apply (derived_hb _ _ _ _ _ _ _ _ _ at_); lia.
Qed.
Lemma slice_addr o h b e s ev r s' e' ko ofs l vt a : sfresh s -> dsame nK s s' -> (forall h', tch o h' <-> h' = h) -> hs s !! h = Some (HB ko ofs l vt a) ->
  bytes_slice h b e s ev = OK r s' e' -> zc_post o s s'.
Proof.
  intros Fs D HT Hx E. unfold bytes_slice in E. binv E. inv_get_h R. rewrite Hx in R. injection R as <-. binv E. apply mret_inv in R as (-> & -> & ->).
  binv E. inv_assert R. binv E. inv_assert R. destruct (e =? b) eqn:Eeb.
  - binv E. apply new_h_inv in R as (-> & Hh & _). apply mret_inv in E as (-> & <- & _).
    eapply (zc_upd_new _ s s' h _ (HB ko ofs l vt a)); [done|done|done|by rewrite (insert_id _ h)|apply derived_refl; simpl; lia|by apply derived_empty].
  - binv E. destruct (bytes_clone_inv _ _ _ _ _ _ _ _ _ _ _ Fs Hx R) as (vt' & a' & a'' & -> & Hh1 & Hn1 & D1 & F1).
    binv E. apply new_h_inv in R0 as (-> & Hh2 & _). apply mret_inv in E as (-> & <- & _). rewrite Hn1, Hh1 in Hh2.
    eapply zc_upd_new; [done|done|done|done|apply (derived_hb _ _ _ _ _ _ _ _ _ 0); lia|apply (derived_hb _ _ _ _ _ _ _ _ _ b); lia].
Qed.
Lemma truncate_addr o h n s ev r s' e' ko ofs l vt a : sfresh s -> dsame nK s s' -> (forall h', tch o h' <-> h' = h) -> hs s !! h = Some (HB ko ofs l vt a) ->
  bytes_truncate h n s ev = OK r s' e' -> zc_post o s s'.
Proof.
  intros Fs D HT Hx E. unfold bytes_truncate in E. binv E. inv_get_h R. rewrite Hx in R. injection R as <-. binv E. apply mret_inv in R as (-> & -> & ->).
  destruct (n <? l) eqn:E1.
  - assert (forall s1 e1, (put_h h (HB ko ofs n vt a);; mret RUnit) s ev = OK r s1 e1 -> dsame nK s s1 -> zc_post o s s1) as Hput.
    { intros s1 e1 E' D'. binv E'. apply put_h_inv in R as (-> & _). apply mret_inv in E' as (-> & -> & _). eapply zc_upd; [done|done|done|done|]. apply (derived_hb _ _ _ _ _ _ _ _ _ 0); lia. }
    assert (forall s1 e1, (let! y := bytes_split_off_core h n in bytes_drop_rep y;; mret RUnit) s ev = OK r s1 e1 -> dsame nK s s1 -> zc_post o s s1) as Hsp.
    { intros s1 e1 E' D'. binv E'. destruct (split_off_core_addr _ _ _ _ _ _ _ _ _ _ _ _ Fs Hx R) as (yh & Hh1 & Hn1 & Hd1 & Hd2).
      binv E'. apply mret_inv in E' as (-> & -> & _). destruct (hsm_run _ _ _ _ _ _ (hsm_bytes_drop_rep _ _) R0) as [Hh2 Hn2].
      eapply zc_upd; [done|done|done|by rewrite Hh2, Hh1|done]. }
    destruct vt; eauto.
  - apply mret_inv in E as (-> & -> & _). split; [done|]. intros h' z Hz. by left.
Qed.
Lemma msplit_to_addr o h cnt s ev r s' e' k ofs l c kd : sfresh s -> dsame nK s s' -> (forall h', tch o h' <-> h' = h) -> hs s !! h = Some (HM k ofs l c kd) -> l <= c ->
  m_split_to h cnt s ev = OK r s' e' -> zc_post o s s'.
Proof.
  intros Fs D HT Hx Hle E. unfold m_split_to in E. binv E. inv_get_h R. rewrite Hx in R. injection R as <-. binv E. apply mret_inv in R as (-> & -> & ->). binv E. inv_assert R.
  binvn E pr. destruct pr as [x1 x2]. destruct (m_shallow_clone_inv _ _ _ _ _ _ _ _ _ _ _ Fs R) as (Hh1 & Hn1 & D1 & F1 & -> & ->).
  binv E. destruct (adv_unchecked_inv _ _ _ _ _ _ _ _ _ _ _ F1 R0) as (Hh2 & Hn2 & D2 & F2 & o' & l' & c' & kd' & -> & -> & ->).
  binv E. apply put_h_inv in R1 as (-> & _). binv E. apply mret_inv in R1 as (-> & -> & _). binv E. apply new_h_inv in R1 as (-> & Hh & _). apply mret_inv in E as (-> & <- & _).
  cbn [hs set_hs next_h] in Hh. rewrite Hn2, Hh2, Hn1, Hh1 in Hh.
  eapply zc_upd_new; [done|done|done|done|apply (derived_hm _ _ _ _ _ _ _ _ _ cnt); lia|apply (derived_hm _ _ _ _ _ _ _ _ _ 0); lia].
Qed.
Theorem zero_copy o s r s' e' : WF s -> dlen s -> op_ok s o -> zc_op o = true -> run_op orc o s = OK r s' e' -> zc_post o s s'.
Proof.
  intros W D0 Hok Hzc E. pose proof W as [L Hf]. pose proof (lwf_fresh _ _ L) as Fs. destruct o; try discriminate Hzc.
  - (* new *) zstart W Hok E D. binv E. apply new_h_inv in R as (-> & Hh & _). apply mret_inv in E as (-> & <- & _). eapply zc_new0; [exact D|intros ? []|exact Hh].
  - (* from_static *) zstart W Hok E D. unfold mbind, mget, mput, mret, new_h in E. destruct (lenN d =? 0); injection E as _ <- _; (eapply zc_new0; [exact D|intros ? []|done]).
  - (* clone *) zstart W Hok E D. destruct Hok as (ko & o & l & vt & a & Hx). binv E. destruct (bytes_clone_inv _ _ _ _ _ _ _ _ _ _ _ Fs Hx R) as (vt' & a' & a'' & -> & Hh1 & Hn1 & D1 & F1).
    binv E. apply new_h_inv in R0 as (-> & Hh2 & _). apply mret_inv in E as (-> & <- & _). rewrite Hn1, Hh1 in Hh2.
    eapply zc_upd_new; [done|tch1|done|done|..]; apply (derived_hb _ _ _ _ _ _ _ _ _ 0); lia.
  - (* slice *) zstart W Hok E D. destruct Hok as (ko & o & l & vt & a & Hx). (eapply slice_addr; [done|done|tch1|done|done]).
  - (* slice ..= *) zstart W Hok E D. destruct Hok as (ko & o & l & vt & a & Hx). binv E. inv_assert R. (eapply slice_addr; [done|done|tch1|done|done]).
  - (* slice_ref *) zstart W Hok E D. destruct Hok as (ko & o & l & vt & a & Hx). binv E. inv_get_h R. rewrite Hx in R. injection R as <-. binv E. apply mret_inv in R as (-> & -> & ->).
    destruct sub as [[so sl]|]; [|done]. destruct (sl =? 0).
    + binv E. apply new_h_inv in R as (-> & Hh & _). apply mret_inv in E as (-> & <- & _).
      eapply (zc_upd_new _ s s' h _ (HB ko o l vt a)); [done|tch1|done|by rewrite (insert_id _ h)|apply derived_refl; simpl; lia|by apply derived_empty].
    + binv E. inv_assert R. (eapply slice_addr; [done|done|tch1|done|done]).
  - (* split_off *) zstart W Hok E D. destruct Hok as (ko & o & l & vt & a & Hx). unfold bytes_split_off in E. binv E.
    destruct (split_off_core_addr _ _ _ _ _ _ _ _ _ _ _ _ Fs Hx R) as (yh & Hh1 & Hn1 & Hd1 & Hd2). binv E. apply new_h_inv in R0 as (-> & Hh2 & _). apply mret_inv in E as (-> & <- & _).
    rewrite Hn1, Hh1 in Hh2. by eapply zc_upd_new; [|tch1|..].
  - (* split_to *) zstart W Hok E D. destruct Hok as (ko & o & l & vt & a & Hx).
    unfold bytes_split_to in E. binv E. inv_get_h R. rewrite Hx in R. injection R as <-. binv E. apply mret_inv in R as (-> & -> & ->).
    destruct (at_ =? l) eqn:E1; [|destruct (at_ =? 0) eqn:E2].
    + binv E. apply put_h_inv in R as (-> & _). binv E. apply new_h_inv in R as (-> & Hh2 & _). apply mret_inv in E as (-> & <- & _). cbn [hs set_hs next_h] in Hh2.
      eapply zc_upd_new; [done|tch1|done|done|by apply derived_empty|apply derived_refl; simpl; lia].
    + binv E. apply new_h_inv in R as (-> & Hh2 & _). apply mret_inv in E as (-> & <- & _).
      eapply (zc_upd_new _ s s' h _ (HB ko o l vt a)); [done|tch1|done|by rewrite (insert_id _ h)|apply derived_refl; simpl; lia|by apply derived_empty].
    + binv E. inv_assert R. binv E. destruct (bytes_clone_inv _ _ _ _ _ _ _ _ _ _ _ Fs Hx R) as (vt' & a' & a'' & -> & Hh1 & Hn1 & D1 & F1).
      binv E. inv_get_h R0. rewrite Hh1, lookup_insert in R0. injection R0 as <-. binv E. apply mret_inv in R0 as (-> & -> & ->).
      binv E. apply put_h_inv in R0 as (-> & _). binv E. apply new_h_inv in R0 as (-> & Hh2 & _). apply mret_inv in E as (-> & <- & _). cbn [hs set_hs next_h] in Hh2.
      rewrite Hn1, Hh1, insert_insert in Hh2.
      eapply zc_upd_new; [done|tch1|done|done|apply (derived_hb _ _ _ _ _ _ _ _ _ at_); lia|apply (derived_hb _ _ _ _ _ _ _ _ _ 0); lia].
  - (* truncate *) zstart W Hok E D. destruct Hok as (ko & o & l & vt & a & Hx). (eapply truncate_addr; [done|done|tch1|done|done]).
  - (* clear *) zstart W Hok E D. destruct Hok as (ko & o & l & vt & a & Hx). (eapply truncate_addr; [done|done|tch1|done|done]).
  - (* advance *) zstart W Hok E D. destruct Hok as (ko & o & l & vt & a & Hx). binv E. inv_get_h R. rewrite Hx in R. injection R as <-. binv E. apply mret_inv in R as (-> & -> & ->).
    binv E. inv_assert R. binv E. apply put_h_inv in R as (-> & _). apply mret_inv in E as (-> & -> & _).
    eapply zc_upd; [done|tch1|done|done|]. apply (derived_hb _ _ _ _ _ _ _ _ _ cnt); lia.
  - (* is_unique *) zstart W Hok E D. destruct Hok as (ko & o & l & vt & a & Hx). binv E. inv_get_h R. rewrite Hx in R. injection R as <-. binv E. apply mret_inv in E as (-> & <- & _).
    destruct (hsm_run _ _ _ _ _ _ (hsm_bytes_is_unique_rep _ s) R) as [Hh _]. split; [done|]. intros h' z Hz. left. by rewrite <- Hh.
  - (* drop *) zstart W Hok E D. destruct Hok as (ko & o & l & vt & a & Hx). binv E. inv_get_h R. rewrite Hx in R. injection R as <-. binv E. binv E. apply del_h_inv in R0 as (-> & _). apply mret_inv in E as (-> & -> & _).
    destruct (hsm_run _ _ _ _ _ _ (hsm_bytes_drop_rep _ s) R) as [Hh _]. eapply (zc_del _ s _ h); [done|]. cbn [hs set_hs]. by rewrite Hh.
  - (* BytesMut::split_off *) zstart W Hok E D. destruct Hok as (k & o & l & c & kd & Hx). pose proof (hm_le _ _ _ _ _ _ (lwf_typed _ _ L _ _ Hx)) as Hle.
    unfold m_split_off in E. binv E. inv_get_h R. rewrite Hx in R. injection R as <-. binv E. apply mret_inv in R as (-> & -> & ->). binv E. inv_assert R.
    binvn E pr. destruct pr as [x1 x2]. destruct (m_shallow_clone_inv _ _ _ _ _ _ _ _ _ _ _ Fs R) as (Hh1 & Hn1 & D1 & F1 & -> & ->).
    binv E. destruct (adv_unchecked_inv _ _ _ _ _ _ _ _ _ _ _ F1 R0) as (Hh2 & Hn2 & D2 & F2 & o' & l' & c' & kd' & -> & -> & ->).
    binv E. apply mret_inv in R1 as (-> & -> & _). binv E. apply put_h_inv in R1 as (-> & _). binv E. apply new_h_inv in R1 as (-> & Hh & _). apply mret_inv in E as (-> & <- & _).
    cbn [hs set_hs next_h] in Hh. rewrite Hn2, Hh2, Hn1, Hh1 in Hh.
    eapply zc_upd_new; [done|tch1|done|done|apply (derived_hm _ _ _ _ _ _ _ _ _ 0); lia|apply (derived_hm _ _ _ _ _ _ _ _ _ at_); lia].
  - (* BytesMut::split_to *) zstart W Hok E D. destruct Hok as (k & o & l & c & kd & Hx). pose proof (hm_le _ _ _ _ _ _ (lwf_typed _ _ L _ _ Hx)) as Hle. eapply (msplit_to_addr (OMSplitTo h at_)); [done|done|tch1|done|done|done].
  - (* BytesMut::split *) zstart W Hok E D. destruct Hok as (k & o & l & c & kd & Hx). binv E. inv_get_h R. rewrite Hx in R. injection R as <-. binv E. apply mret_inv in R as (-> & -> & ->).
    pose proof (hm_le _ _ _ _ _ _ (lwf_typed _ _ L _ _ Hx)) as Hle. eapply (msplit_to_addr (OMSplit h)); [done|done|tch1|done|done|done].
  - (* truncate *) zstart W Hok E D. destruct Hok as (k & o & l & c & kd & Hx). pose proof (hm_le _ _ _ _ _ _ (lwf_typed _ _ L _ _ Hx)) as Hle.
    binv E. inv_get_h R. rewrite Hx in R. injection R as <-. binv E. apply mret_inv in R as (-> & -> & ->). binv E. apply mret_inv in E as (-> & -> & _). destruct (len <=? l) eqn:En.
    + apply put_h_inv in R as (-> & _). eapply zc_upd; [done|tch1|done|done|]. apply (derived_hm _ _ _ _ _ _ _ _ _ 0); lia.
    + apply mret_inv in R as (_ & -> & _). split; [done|]. intros h' z Hz. by left.
  - (* clear *) zstart W Hok E D. destruct Hok as (k & o & l & c & kd & Hx).
    binv E. inv_get_h R. rewrite Hx in R. injection R as <-. binv E. apply mret_inv in R as (-> & -> & ->). binv E. apply mret_inv in E as (-> & -> & _). apply put_h_inv in R as (-> & _).
    eapply zc_upd; [done|tch1|done|done|]. by apply derived_empty.
  - (* freeze *) zstart W Hok E D. destruct Hok as (k & o & l & c & kd & Hx). pose proof (hm_le _ _ _ _ _ _ (lwf_typed _ _ L _ _ Hx)) as Hle.
    binv E. inv_get_h R. rewrite Hx in R. injection R as <-. binvn E b. destruct (hsm_run _ _ _ _ _ _ (hsm_m_freeze_rep _ s) R) as [Hh1 Hn1].
    binv E. apply del_h_inv in R0 as (-> & _). binv E. apply new_h_inv in R0 as (-> & Hh & _). apply mret_inv in E as (-> & <- & _). cbn [hs set_hs next_h] in Hh. rewrite Hn1, Hh1 in Hh.
    eapply zc_del_new; [done|tch1|done|done|]. destruct kd as [ocr|]; cbn [m_freeze_rep] in R.
    + binvn R b0. unfold bytes_from_vec in R0. destruct (l + o =? c + o); [destruct (l + o =? 0) eqn:E0|].
      * apply mret_inv in R0 as (-> & _). binv R. apply mret_inv in R as (-> & _). by apply derived_empty.
      * binv R0. apply mret_inv in R0 as (-> & _). binv R. apply mret_inv in R as (-> & _). right. exists 0. simpl. split; [done|]. split; lia.
      * binv R0. binv R0. apply mret_inv in R0 as (-> & _). binv R. apply mret_inv in R as (-> & _). right. exists 0. simpl. split; [done|]. split; lia.
    + apply mret_inv in R as (-> & _). right. exists 0. simpl. split; [done|]. split; lia.
  - (* advance *) zstart W Hok E D. destruct Hok as (k & o & l & c & kd & Hx). pose proof (hm_le _ _ _ _ _ _ (lwf_typed _ _ L _ _ Hx)) as Hle.
    binv E. inv_get_h R. rewrite Hx in R. injection R as <-. binv E. apply mret_inv in R as (-> & -> & ->). binv E. inv_assert R.
    binv E. destruct (adv_unchecked_inv _ _ _ _ _ _ _ _ _ _ _ Fs R) as (Hh2 & Hn2 & D2 & F2 & o' & l' & c' & kd' & -> & -> & ->).
    binv E. apply put_h_inv in R0 as (-> & _). apply mret_inv in E as (-> & -> & _).
    eapply zc_upd; [done|tch1|done|by cbn [hs set_hs]; rewrite Hh2|]. apply (derived_hm _ _ _ _ _ _ _ _ _ cnt); lia.
  - (* drop *) zstart W Hok E D. destruct Hok as (k & o & l & c & kd & Hx). binv E. inv_get_h R. rewrite Hx in R. injection R as <-. binv E. binv E. apply del_h_inv in R0 as (-> & _). apply mret_inv in E as (-> & -> & _).
    destruct (hsm_run _ _ _ _ _ _ (hsm_m_drop_rep _ s) R) as [Hh _]. eapply (zc_del _ s _ h); [done|]. cbn [hs set_hs]. by rewrite Hh.
  - (* Vec drop *) zstart W Hok E D. destruct Hok as (k & l & c & Hx). binv E. inv_get_h R. rewrite Hx in R. injection R as <-. binv E. binv E. apply del_h_inv in R0 as (-> & _). apply mret_inv in E as (-> & -> & _).
    destruct (hsm_run _ _ _ _ _ _ (hsm_drop_vec _ _ s) R) as [Hh _]. eapply (zc_del _ s _ h); [done|]. cbn [hs set_hs]. by rewrite Hh.
Qed.

End Z.
Theorem zero_copy_reachable orcs n s o r s' e' : reach orcs n s -> op_ok s o -> zc_op o = true -> run_op (orcs n) o s = OK r s' e' -> zc_post o s s'.
Proof. intros R. eapply zero_copy; [by eapply reach_wf|by eapply reach_dlen]. Qed.

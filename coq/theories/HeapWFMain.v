(* Assembly: every covered operation preserves WF and never reaches UB from a WF state; hence every state reachable from the
   empty state by covered, well-typed operations is WF.  Corollaries: nothing leaks, a dead storage has no holder. *)
From stdpp Require Import gmap.
From Coq Require Import NArith Lia String.
From BV Require Import Base BaseLemmas BufMut Heap HeapLaws HeapPanic HeapWF HeapWFPrim HeapWFOps.
Local Open Scope N_scope.

(* the operations for which the invariant proof is complete (the remaining ones are listed in Properties/C02.v) *)
Definition covered (o : op) : bool :=
  match o with
  | OBNew | OBFromStatic _ | OBFromVec _ _ | OBFromOwner _ _ | OMNew | OMWithCapacity _ | OMZeroed _ | OMFromSlice _
  | OBClone _ | OBSlice _ _ _ | OBSliceIncl _ _ _ | OBSliceRef _ _ | OBSplitOff _ _ | OBSplitTo _ _ | OBTruncate _ _ | OBClear _ | OBAdvance _ _
  | OBIsUnique _ | OBTryIntoMut _ | OBIntoMut _ | OBIntoVec _ | OBDrop _ | OMClone _ | OMDrop _ | OMTruncate _ _ | OMClear _ | OMWrite _ _ _ | OVIntoBytes _ | OVDrop _
  | OMSplitOff _ _ | OMSplitTo _ _ | OMSplit _ | OMAdvance _ _ | OMFreeze _ | OMIntoVec _ => true
  | _ => false
  end.
Lemma covered_wfstep orc o : covered o = true -> wfstep orc o.
Proof.
  destruct o; simpl; try discriminate; intros _.
  - apply wf_OBNew. - apply wf_OBFromStatic. - apply wf_OBFromVec. - apply wf_OBFromOwner.
  - apply wf_OMNew. - apply wf_OMWithCapacity. - apply wf_OMZeroed. - apply wf_OMFromSlice.
  - apply wf_OBClone. - apply wf_OBSlice. - apply wf_OBSliceIncl. - apply wf_OBSliceRef. - apply wf_OBSplitOff. - apply wf_OBSplitTo.
  - apply wf_OBTruncate. - apply wf_OBClear. - apply wf_OBAdvance. - apply wf_OBIsUnique. - apply wf_OBTryIntoMut. - apply wf_OBIntoMut. - apply wf_OBIntoVec. - apply wf_OBDrop.
  - apply wf_OMSplitOff. - apply wf_OMSplitTo. - apply wf_OMSplit. - apply wf_OMTruncate. - apply wf_OMClear. - apply wf_OMWrite. - apply wf_OMFreeze.
  - apply wf_OMIntoVec. - apply wf_OMAdvance. - apply wf_OMClone. - apply wf_OMDrop.
  - apply wf_OVIntoBytes. - apply wf_OVDrop.
Qed.

Theorem wf_preserved orc o s : covered o = true -> WF s -> op_ok s o ->
  match run_op orc o s with OK _ s' _ => WF s' | PANIC s' _ => WF s' | UB _ => False end.
Proof.
  intros Hc W Hok. unfold run_op. pose proof (covered_wfstep orc o Hc s W Hok []) as H.
  destruct (hstep orc o s []) as [r s' e'|s' e'|why] eqn:E; [exact H| |exact H].
  destruct (clean_panic_op o) eqn:Ecp.
  - pose proof (panics_are_clean orc o Ecp s []) as Hp. rewrite E in Hp. destruct Hp as [-> _]. exact W.
  - destruct o; try discriminate Ecp; try discriminate Hc.
    + destruct panics; [|discriminate]. pose proof (from_owner_wf orc d true s W []) as Hp. rewrite E in Hp. exact Hp.
    + pose proof (freeze_never_panics orc h s []) as Hn. by rewrite E in Hn.
Qed.

(* histories *)
Inductive reach (orcs : nat -> oracle) : nat -> hst -> Prop :=
| reach0 odd : reach orcs 0 (hst0 odd)
| reach_ok n s o r s' e : reach orcs n s -> covered o = true -> op_ok s o -> run_op (orcs n) o s = OK r s' e -> reach orcs (S n) s'
| reach_panic n s o s' e : reach orcs n s -> covered o = true -> op_ok s o -> run_op (orcs n) o s = PANIC s' e -> reach orcs (S n) s'.
Theorem reach_wf orcs n s : reach orcs n s -> WF s.
Proof.
  induction 1 as [odd|n s o r s' e Hr IH Hc Hok Hrun|n s o s' e Hr IH Hc Hok Hrun]; [apply wf0| |].
  - pose proof (wf_preserved (orcs n) o s Hc IH Hok) as H. by rewrite Hrun in H.
  - pose proof (wf_preserved (orcs n) o s Hc IH Hok) as H. by rewrite Hrun in H.
Qed.
Theorem reach_no_ub orcs n s o why : reach orcs n s -> covered o = true -> op_ok s o -> run_op (orcs n) o s <> UB why.
Proof. intros Hr Hc Hok E. pose proof (wf_preserved (orcs n) o s Hc (reach_wf _ _ _ Hr) Hok) as H. by rewrite E in H. Qed.

(* with no handle left, every heap buffer and every owner's memory has been released *)
Theorem wf_no_leak s k st : WF s -> hs s = ∅ -> sts s !! k = Some st -> (s_cls st = SHeap \/ s_cls st = SOwnerMem) -> s_live st = false.
Proof.
  intros [L _] He Hs Hcl. pose proof (lwf_st _ _ L _ _ Hs) as Hok. rewrite He, refs_empty in Hok. unfold st_ok in Hok.
  destruct (s_live st) eqn:Hl; [|done]. exfalso. destruct Hcl as [Hc|Hc]; rewrite Hc in Hok.
  - destruct Hok as [_ Hok]. destruct (s_ctrl st); try done; destruct Hok as (_ & _ & ?); lia.
  - destruct Hok as (rc & o & _ & _ & ? & _). lia.
Qed.
(* a storage that has been freed is referenced by no handle; a live counted storage's count is the number of its handles *)
Theorem wf_dead_unreferenced s k st h x : WF s -> sts s !! k = Some st -> s_live st = false -> hs s !! h = Some x -> holds x <> Some k.
Proof.
  intros [L _] Hs Hl Hx Hh. destruct (lwf_holder _ _ _ _ _ L Hx Hh) as (st' & Hs' & Hl' & _). rewrite Hs in Hs'. injection Hs' as <-. congruence.
Qed.
Theorem wf_count_is_holders s k st cap rc : WF s -> sts s !! k = Some st -> s_live st = true -> s_ctrl st = CShared cap rc -> rc = N.of_nat (refs (hs s) k).
Proof.
  intros [L _] Hs Hl Hc. pose proof (lwf_st _ _ L _ _ Hs) as Hok. unfold st_ok in Hok. rewrite Hl, Hc in Hok.
  destruct (s_cls st); try (exfalso; clear -Hok; naive_solver). by destruct Hok as (_ & _ & ? & _).
Qed.

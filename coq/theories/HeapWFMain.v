(* Assembly: EVERY operation of M2 preserves WF and never reaches UB from a WF state; hence every state reachable from the
   empty state by well-typed operations is WF.  Corollaries: nothing leaks, a dead storage has no holder, counts are exact. *)
From stdpp Require Import gmap.
From Coq Require Import NArith Lia String.
From BV Require Import Base BaseLemmas BufMut Heap HeapLaws HeapPanic HeapWF HeapWFPrim HeapWFOps.
Local Open Scope N_scope.

Lemma all_wfstep orc o : wfstep orc o.
Proof.
  destruct o.
  - apply wf_OBNew. - apply wf_OBFromStatic. - apply wf_OBFromVec. - apply wf_OBFromOwner.
  - apply wf_OMNew. - apply wf_OMWithCapacity. - apply wf_OMZeroed. - apply wf_OMFromSlice.
  - apply wf_OBClone. - apply wf_OBSlice. - apply wf_OBSliceIncl. - apply wf_OBSliceRef. - apply wf_OBSplitOff. - apply wf_OBSplitTo.
  - apply wf_OBTruncate. - apply wf_OBClear. - apply wf_OBAdvance. - apply wf_OBIsUnique. - apply wf_OBTryIntoMut. - apply wf_OBIntoMut. - apply wf_OBIntoVec. - apply wf_OBDrop.
  - apply wf_OMSplitOff. - apply wf_OMSplitTo. - apply wf_OMSplit. - apply wf_OMTruncate. - apply wf_OMClear. - apply wf_OMResize. - apply wf_OMReserve. - apply wf_OMTryReclaim.
  - apply wf_OMExtend. - apply wf_OMExtendIter. - apply wf_OMWrite. - apply wf_OMUnsplit. - apply wf_OMFreeze.
  - apply wf_OMIntoVec. - apply wf_OMAdvance. - apply wf_OMClone. - apply wf_OMDrop.
  - apply wf_OVIntoBytes. - apply wf_OVDrop.
Qed.

(* op_ok s o: the handles the operation names exist and have the right type (Bytes / BytesMut / Vec; unsplit: two different handles) *)
Theorem wf_preserved orc o s : WF s -> op_ok s o ->
  match run_op orc o s with OK _ s' _ => WF s' | PANIC s' _ => WF s' | UB _ => False end.
Proof.
  intros W Hok. unfold run_op. pose proof (all_wfstep orc o s W Hok []) as H.
  destruct (hstep orc o s []) as [r s' e'|s' e'|why] eqn:E; [exact H| |exact H].
  destruct (clean_panic_op o) eqn:Ecp.
  - pose proof (panics_are_clean orc o Ecp s []) as Hp. rewrite E in Hp. destruct Hp as [-> _]. exact W.
  - destruct o; try discriminate Ecp.
    + destruct panics; [|discriminate]. pose proof (from_owner_wf orc d true s W []) as Hp. rewrite E in Hp. exact Hp.
    + pose proof (extend_iter_wfp orc h d hint s W Hok []) as Hp. rewrite E in Hp. exact Hp.
    + pose proof (freeze_never_panics orc h s []) as Hn. by rewrite E in Hn.
Qed.

(* histories *)
Inductive reach (orcs : nat -> oracle) : nat -> hst -> Prop :=
| reach0 odd : reach orcs 0 (hst0 odd)
| reach_ok n s o r s' e : reach orcs n s -> op_ok s o -> run_op (orcs n) o s = OK r s' e -> reach orcs (S n) s'
| reach_panic n s o s' e : reach orcs n s -> op_ok s o -> run_op (orcs n) o s = PANIC s' e -> reach orcs (S n) s'.
Theorem reach_wf orcs n s : reach orcs n s -> WF s.
Proof.
  induction 1 as [odd|n s o r s' e Hr IH Hok Hrun|n s o s' e Hr IH Hok Hrun]; [apply wf0| |].
  - pose proof (wf_preserved (orcs n) o s IH Hok) as H. by rewrite Hrun in H.
  - pose proof (wf_preserved (orcs n) o s IH Hok) as H. by rewrite Hrun in H.
Qed.
Theorem reach_no_ub orcs n s o why : reach orcs n s -> op_ok s o -> run_op (orcs n) o s <> UB why.
Proof. intros Hr Hok E. pose proof (wf_preserved (orcs n) o s (reach_wf _ _ _ Hr) Hok) as H. by rewrite E in H. Qed.

(* with no handle left, every heap buffer and every owner's memory has been released *)
Theorem wf_no_leak s k st : WF s -> hs s = ∅ -> sts s !! k = Some st -> (s_cls st = SHeap \/ s_cls st = SOwnerMem) -> s_live st = false.
Proof.
  intros [L _] He Hs Hcl. pose proof (lwf_st _ _ L _ _ Hs) as Hok. rewrite He, refs_empty in Hok. unfold st_ok in Hok.
  destruct (s_live st) eqn:Hl; [|done]. exfalso. destruct Hcl as [Hc|Hc]; rewrite Hc in Hok.
  - destruct Hok as [_ Hok]. destruct (s_ctrl st); try done; destruct Hok as (_ & _ & ?); lia.
  - destruct Hok as (rc & o & _ & _ & ? & _). lia.
Qed.
(* a storage that has been freed is referenced by no handle; a live counted storage's count is the number of its handles *)
Theorem wf_dead_unreferenced s k st h x : WF s -> sts s !! k = Some st -> s_live st = false -> hs s !! h = Some x -> holds x <> Some k.
Proof.
  intros [L _] Hs Hl Hx Hh. destruct (lwf_holder _ _ _ _ _ L Hx Hh) as (st' & Hs' & Hl' & _). rewrite Hs in Hs'. injection Hs' as <-. congruence.
Qed.
Theorem wf_count_is_holders s k st cap rc : WF s -> sts s !! k = Some st -> s_live st = true -> s_ctrl st = CShared cap rc -> rc = N.of_nat (refs (hs s) k).
Proof.
  intros [L _] Hs Hl Hc. pose proof (lwf_st _ _ L _ _ Hs) as Hok. unfold st_ok in Hok. rewrite Hl, Hc in Hok.
  destruct (s_cls st); try (exfalso; clear -Hok; naive_solver). by destruct Hok as (_ & _ & ? & _).
Qed.
(* exclusivity (C04): the non-empty windows of two different shared BytesMut handles on one buffer never overlap, and lie inside it *)
Theorem wf_windows_disjoint s h1 h2 k o1 l1 c1 o2 l2 c2 : WF s -> h1 <> h2 -> hs s !! h1 = Some (HM k o1 l1 c1 MArc) -> hs s !! h2 = Some (HM k o2 l2 c2 MArc) ->
  c1 = 0 \/ c2 = 0 \/ o1 + c1 <= o2 \/ o2 + c2 <= o1.
Proof. intros [L _] Hne H1 H2. eapply (lwf_disj _ _ L h1 h2); eauto. Qed.
Theorem wf_window_in_bounds s h k o l c kd : WF s -> hs s !! h = Some (HM k o l c kd) -> exists st, sts s !! k = Some st /\ s_live st = true /\ o + c <= s_size st /\ l <= c.
Proof.
  intros [L _] Hx. pose proof (lwf_typed _ _ L _ _ Hx) as Hty. destruct kd; simpl in Hty; destruct Hty as (st & ? & ? & ? & ? & ? & ?); exists st; repeat split; try done; lia.
Qed.
(* uniqueness (C08): is_unique answers true exactly when the handle is the only holder of its storage *)
Theorem wf_is_unique_iff_sole s h k ofs len arc b s' e e' : WF s -> hs s !! h = Some (HB (Some k) ofs len VShared arc) ->
  bytes_is_unique_rep (HB (Some k) ofs len VShared arc) s e = OK b s' e' -> (b = true <-> refs (hs s) k = 1%nat).
Proof.
  intros [L _] Hx. pose proof (lwf_typed _ _ L _ _ Hx) as (st & Hs & Hl & Hb & Hcl & rc & Hc).
  pose proof (lwf_st _ _ L _ _ Hs) as Hok. unfold st_ok in Hok. rewrite Hcl, Hl, Hc in Hok. destruct Hok as (_ & _ & -> & Hn).
  unfold bytes_is_unique_rep, get_rc, mbind, get_st, mret. rewrite Hs, Hc. intros [= <- _ _]. split; intros H; lia.
Qed.

(* Further public entry points of Bytes / BytesMut, each DEFINED by the source through entry points M2 already has (bytes_mut.rs / bytes.rs):
     Bytes::copy_from_slice(d)            = data.to_vec().into()                       -> From<Vec> of a full vector
     From<Box<[u8]>>                      (what From<Vec> itself calls for a full vector)
     From<String>                         = Bytes::from(s.into_bytes())
     FromIterator<u8> for Bytes           = Vec::from_iter(..).into()                  (exact-size iterator: capacity = length)
     FromIterator<u8>/<&u8> for BytesMut  = BytesMut::from_vec(Vec::from_iter(..))
     From<&str> for BytesMut              = From<&[u8]>
     Extend<Bytes>                        = for bytes in iter { self.extend_from_slice(&bytes) }
     Extend<&u8>                          = self.extend(iter.copied())                 (Extend<u8>, size hint = the length)
     BufMut::put_slice, fmt::Write::write_str = extend_from_slice
     BufMut::put_bytes(v, cnt)            = reserve(cnt); fill; advance_mut            = resize(len + cnt, v)
     set_len(n), n <= len                 = what truncate(n) does
     spare_capacity_mut()[..k] written, set_len(len + k), k <= capacity - len          = extend_from_slice that fits
     Buf::copy_to_bytes(n) of BytesMut    = self.split_to(n).freeze()
     BufMut::put(src: Bytes)              = while src.has_remaining() { extend_from_slice(src.chunk()); src.advance(..) }; drop(src)
   An entry point expands into a list of model operations; what it needs of the state (a length, the bytes a handle reads, the id the next
   handle gets) is taken from the state of the model that runs it.  The two models compute the same expansion on related states
   (expand_agree), so the refinement of whole histories carries over (Entry.entry_refinement).
   This file holds the definitions only (it is extracted: the correspondence runner expands the entry points with `expand`); the theorems are in Entry.v. *)
From stdpp Require Import gmap.
From Coq Require Import NArith String.
From BV Require Import Base Heap Spec.
Local Open Scope N_scope.

(* length field and bytes read by a handle (the same functions as HeapLaws.h_len and HeapFrame.view, restated here so that this file does not depend on proof files) *)
Definition hlen (x : handle) : N := match x with HB _ _ l _ _ | HM _ _ l _ _ | HV _ l _ => l end.
Definition hview (sm : gmap sid storage) (x : handle) : list byte :=
  match x with
  | HB (Some k) o l _ _ | HM k o l _ _ => match sm !! k with Some st => rd (s_data st) o l | None => [] end
  | HV k l _ => match sm !! k with Some st => rd (s_data st) 0 l | None => [] end
  | HB None _ _ _ _ => []
  end.

Inductive xop :=
| XBCopyFromSlice (d : list byte) | XBFromBox (d : list byte) | XBFromString (d : list byte) (cap : N) | XBFromIter (d : list byte)
| XMFromIter (d : list byte) | XMFromStr (d : list byte)
| XMExtendBytes (h : hid) (cs : list (list byte)) | XMExtendRef (h : hid) (d : list byte) | XMPutSlice (h : hid) (d : list byte)
| XMPutBytes (h : hid) (v : byte) (cnt : N) | XMWriteStr (h : hid) (d : list byte) | XMSetLen (h : hid) (n : N) | XMSpare (h : hid) (d : list byte)
| XMCopyToBytes (h : hid) (n : N) | XMPutBuf (h j : hid).

Record xview := { xv_len : hid -> N; xv_bytes : hid -> list byte; xv_next : hid }.
Definition expand (w : xview) (x : xop) : list op :=
  match x with
  | XBCopyFromSlice d | XBFromBox d | XBFromIter d => [OBFromVec d (lenN d)]
  | XBFromString d cap => [OBFromVec d cap]
  | XMFromIter d | XMFromStr d => [OMFromSlice d]
  | XMExtendBytes h cs => map (OMExtend h) cs
  | XMExtendRef h d => [OMExtendIter h d (lenN d)]
  | XMPutSlice h d | XMWriteStr h d | XMSpare h d => [OMExtend h d]
  | XMPutBytes h v cnt => [OMResize h (xv_len w h + cnt) v]
  | XMSetLen h n => [OMTruncate h n]
  | XMCopyToBytes h n => [OMSplitTo h n; OMFreeze (xv_next w)]
  | XMPutBuf h j => [OMExtend h (xv_bytes w j); OBDrop j]
  end.
(* the side conditions under which the expansion is what the source does (the `unsafe` contracts of set_len / spare_capacity_mut) *)
Definition xop_ok (v : xview) (cap_of_h : hid -> N) (x : xop) : Prop :=
  match x with
  | XMSetLen h n => n <= xv_len v h
  | XMSpare h d => lenN d <= cap_of_h h - xv_len v h
  | XBFromString d cap => lenN d <= cap
  | _ => True
  end.

Definition view2 (s : hst) : xview :=
  {| xv_len h := from_option hlen 0 (hs s !! h); xv_bytes h := from_option (hview (sts s)) [] (hs s !! h); xv_next := next_h s |}.
Definition view1 (t : sst) : xview :=
  {| xv_len h := from_option (fun v => lenN (sv_bytes v)) 0 (vals t !! h); xv_bytes h := from_option sv_bytes [] (vals t !! h); xv_next := snext t |}.


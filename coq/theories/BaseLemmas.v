(* lemmas about Base: firstnN/skipN are take/drop; lengths *)
From stdpp Require Import list.
From Coq Require Import NArith Lia ZifyN ZifyNat ZifyBool.
From BV Require Import Base.
Local Open Scope N_scope.

Lemma firstnN_eq {A} n (l : list A) : firstnN n l = take (N.to_nat n) l.
Proof.
  unfold firstnN, lenN. destruct (decide (n <= N.of_nat (length l))).
  - f_equal. lia.
  - rewrite !take_ge by lia. done.
Qed.
Lemma skipN_eq {A} n (l : list A) : skipN n l = drop (N.to_nat n) l.
Proof.
  unfold skipN, lenN. destruct (decide (n <= N.of_nat (length l))).
  - f_equal. lia.
  - rewrite !drop_ge by lia. done.
Qed.
Lemma lenN_app {A} (a b : list A) : lenN (a ++ b) = lenN a + lenN b.
Proof. unfold lenN. rewrite app_length. lia. Qed.
Lemma lenN_nil {A} : lenN (@nil A) = 0. Proof. done. Qed.
Lemma lenN_cons {A} (x : A) l : lenN (x :: l) = 1 + lenN l. Proof. unfold lenN. simpl. lia. Qed.
Lemma lenN_firstnN {A} n (l : list A) : lenN (firstnN n l) = N.min n (lenN l).
Proof. rewrite firstnN_eq. unfold lenN. rewrite take_length. lia. Qed.
Lemma lenN_skipN {A} n (l : list A) : lenN (skipN n l) = lenN l - n.
Proof. rewrite skipN_eq. unfold lenN. rewrite drop_length. lia. Qed.
Lemma lenN_zero {A} (l : list A) : lenN l = 0 <-> l = [].
Proof. unfold lenN. destruct l; simpl; split; intros; try done; lia. Qed.
Lemma firstnN_skipN {A} n (l : list A) : firstnN n l ++ skipN n l = l.
Proof. rewrite firstnN_eq, skipN_eq. apply take_drop. Qed.
Lemma skipN_0 {A} (l : list A) : skipN 0 l = l. Proof. by rewrite skipN_eq. Qed.
Lemma firstnN_0 {A} (l : list A) : firstnN 0 l = []. Proof. by rewrite firstnN_eq. Qed.
Lemma skipN_skipN {A} a b (l : list A) : skipN b (skipN a l) = skipN (a + b) l.
Proof. rewrite !skipN_eq, drop_drop. f_equal. lia. Qed.
Lemma skipN_all {A} n (l : list A) : lenN l <= n -> skipN n l = [].
Proof. intros. rewrite skipN_eq. apply drop_ge. unfold lenN in *. lia. Qed.
Lemma firstnN_all {A} n (l : list A) : lenN l <= n -> firstnN n l = l.
Proof. intros. rewrite firstnN_eq. apply take_ge. unfold lenN in *. lia. Qed.
Lemma skipN_app_le {A} n (a b : list A) : n <= lenN a -> skipN n (a ++ b) = skipN n a ++ b.
Proof. intros. rewrite !skipN_eq. apply drop_app_le. unfold lenN in *. lia. Qed.
Lemma skipN_app_ge {A} n (a b : list A) : lenN a <= n -> skipN n (a ++ b) = skipN (n - lenN a) b.
Proof. intros. rewrite !skipN_eq. rewrite drop_app_ge by (unfold lenN in *; lia). f_equal. unfold lenN in *. lia. Qed.
Lemma firstnN_app_le {A} n (a b : list A) : n <= lenN a -> firstnN n (a ++ b) = firstnN n a.
Proof. intros. rewrite !firstnN_eq. apply take_app_le. unfold lenN in *. lia. Qed.
Lemma firstnN_app_ge {A} n (a b : list A) : lenN a <= n -> firstnN n (a ++ b) = a ++ firstnN (n - lenN a) b.
Proof. intros. rewrite !firstnN_eq. rewrite take_app_ge by (unfold lenN in *; lia). do 2 f_equal. unfold lenN in *. lia. Qed.
Lemma firstnN_firstnN {A} a b (l : list A) : firstnN a (firstnN b l) = firstnN (N.min a b) l.
Proof. rewrite !firstnN_eq, take_take. f_equal. lia. Qed.
Lemma skipN_firstnN {A} a b (l : list A) : skipN a (firstnN b l) = firstnN (b - a) (skipN a l).
Proof. rewrite !firstnN_eq, !skipN_eq. rewrite skipn_firstn_comm. f_equal. lia. Qed.
Lemma firstnN_add {A} a b (l : list A) : firstnN (a + b) l = firstnN a l ++ firstnN b (skipN a l).
Proof.
  rewrite !firstnN_eq, skipN_eq. replace (N.to_nat (a + b)) with (N.to_nat a + N.to_nat b)%nat by lia.
  destruct (decide (N.to_nat a <= length l)%nat).
  - rewrite <- (take_drop (N.to_nat a) l) at 1. rewrite take_add_app; [done|]. rewrite take_length. lia.
  - rewrite !take_ge by lia. rewrite drop_ge by lia. by rewrite take_nil, app_nil_r.
Qed.

Lemma prefix_take {A} (l : list A) n : take n l `prefix_of` l.
Proof. exists (drop n l). by rewrite take_drop. Qed.
Lemma prefix_firstnN {A} n (l : list A) : firstnN n l `prefix_of` l.
Proof. rewrite firstnN_eq. apply prefix_take. Qed.
Lemma prefix_same_length {A} (l1 l2 : list A) : l1 `prefix_of` l2 -> length l1 = length l2 -> l1 = l2.
Proof. intros [k ->] H. rewrite app_length in H. destruct k; [by rewrite app_nil_r|simpl in H; lia]. Qed.
Lemma prefix_firstnN_eq {A} (p l : list A) : p `prefix_of` l -> firstnN (lenN p) l = p.
Proof. intros [k ->]. rewrite firstnN_app_le by lia. by apply firstnN_all. Qed.
Lemma prefix_lenN {A} (p l : list A) : p `prefix_of` l -> lenN p <= lenN l.
Proof. intros [k ->]. rewrite lenN_app. lia. Qed.
Lemma firstnN_prefix_mono {A} n (p l : list A) : p `prefix_of` l -> n <= lenN p -> firstnN n p = firstnN n l.
Proof. intros [k ->] H. by rewrite firstnN_app_le. Qed.

(* M7 (formatting half): Debug / LowerHex / UpperHex of Bytes and BytesMut, and an independent
   lexer for Rust byte-string literals.  Definitions only; proofs are in FmtProofs.v.
   The per-byte tables are PARAMETERS here; Gen/Escapes.v (regenerated on every run by
   executing the crate's formatters on all 256 one-byte strings) instantiates them. *)
From Coq Require Import Ascii List NArith Bool.
Import ListNotations.
Local Open Scope N_scope.

Definition str := list ascii.

Definition hexval (c : ascii) : option N :=
  let n := N_of_ascii c in
  if (48 <=? n) && (n <=? 57) then Some (n - 48)
  else if (97 <=? n) && (n <=? 102) then Some (n - 87)
  else if (65 <=? n) && (n <=? 70) then Some (n - 55) else None.

(* one element of the body of a Rust byte-string literal (reference: tokens.html#byte-escapes);
   written independently of the formatter *)
Definition lex1 (s : str) : option (N * str) :=
  match s with
  | [] => None
  | c :: r =>
    if Ascii.eqb c "\"%char then
      match r with
      | [] => None
      | e :: r2 =>
        if Ascii.eqb e "n"%char then Some (10, r2) else if Ascii.eqb e "r"%char then Some (13, r2)
        else if Ascii.eqb e "t"%char then Some (9, r2) else if Ascii.eqb e "\"%char then Some (92, r2)
        else if Ascii.eqb e "0"%char then Some (0, r2) else if Ascii.eqb e "'"%char then Some (39, r2)
        else if Ascii.eqb e """"%char then Some (34, r2)
        else if Ascii.eqb e "x"%char then
          match r2 with
          | h :: l :: r3 => match hexval h, hexval l with Some a, Some b => Some (16 * a + b, r3) | _, _ => None end
          | _ => None
          end
        else None
      end
    else if Ascii.eqb c """"%char then None
    else if (N_of_ascii c <? 128) && negb (N_of_ascii c =? 13) then Some (N_of_ascii c, r) else None
  end.

Fixpoint parse_body (fuel : nat) (s : str) : option (list N) :=
  match fuel with
  | O => None
  | S fuel =>
    match s with
    | [q] => if Ascii.eqb q """"%char then Some [] else None
    | _ => match lex1 s with Some (b, r) => option_map (cons b) (parse_body fuel r) | None => None end
    end
  end.
Definition parse_lit (s : str) : option (list N) :=
  match s with "b"%char :: """"%char :: body => parse_body (S (length body)) body | _ => None end.

(* the formatter, parametric in the per-byte table *)
Definition debug_fmt (tbl : N -> str) (bs : list N) : str :=
  "b"%char :: """"%char :: concat (map tbl bs) ++ [""""%char].

Definition entry_ok (tbl : N -> str) (b : N) : bool :=
  match lex1 (tbl b) with Some (b', []) => (b' =? b) | _ => false end.
Definition all_bytes : list N := map N.of_nat (seq 0 256).
Definition table_ok (tbl : N -> str) : bool := forallb (entry_ok tbl) all_bytes.

(* hex *)
Definition hex_fmt (tbl : N -> str) (bs : list N) : str := concat (map tbl bs).
Definition is_lower_hex (c : ascii) : bool :=
  let n := N_of_ascii c in ((48 <=? n) && (n <=? 57)) || ((97 <=? n) && (n <=? 102)).
Definition is_upper_hex (c : ascii) : bool :=
  let n := N_of_ascii c in ((48 <=? n) && (n <=? 57)) || ((65 <=? n) && (n <=? 70)).
Definition hex_entry_ok (cls : ascii -> bool) (tbl : N -> str) (b : N) : bool :=
  match tbl b with
  | [h; l] => cls h && cls l && match hexval h, hexval l with Some x, Some y => (16 * x + y =? b) | _, _ => false end
  | _ => false
  end.
Definition hex_table_ok (cls : ascii -> bool) (tbl : N -> str) : bool := forallb (hex_entry_ok cls tbl) all_bytes.
Fixpoint unhex (s : str) : option (list N) :=
  match s with
  | [] => Some []
  | h :: l :: r => match hexval h, hexval l, unhex r with Some x, Some y, Some bs => Some ((16 * x + y) :: bs) | _, _, _ => None end
  | _ => None
  end.

(* tables given as 256-entry lists of character codes (the form Gen/Escapes.v uses) *)
Definition tbl_of (l : list (list N)) (b : N) : str := map ascii_of_N (nth (N.to_nat b) l []).

(* serde: the data-model values the crate's visitors accept and what the crate builds from them *)
Inductive serde_tok :=
| TBytes (bs : list N) | TBorrowedBytes (bs : list N) | TByteBuf (bs : list N)
| TSeq (hint : option N) (elems : list N) | TStr (utf8 : list N) | TString (utf8 : list N).
Definition serialize (bs : list N) : serde_tok := TBytes bs.
Definition visit (t : serde_tok) : list N :=
  match t with
  | TBytes bs | TBorrowedBytes bs | TByteBuf bs => bs
  | TSeq _ l => l          (* Vec::with_capacity(min(hint,4096)) then push each element *)
  | TStr s | TString s => s
  end.
Definition tok_payload (t : serde_tok) : list N :=
  match t with TBytes b | TBorrowedBytes b | TByteBuf b | TSeq _ b | TStr b | TString b => b end.

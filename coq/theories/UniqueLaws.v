(* C08 on M2: is_unique() answers "exactly one handle holds the storage" for every heap representation; a unique Bytes converts to BytesMut in
   place (same storage, same offset, no byte moved); an empty BytesMut that is the sole holder takes the whole allocation back. *)
From stdpp Require Import gmap.
From Coq Require Import NArith Lia String.
From BV Require Import Base BaseLemmas BufMut Heap HeapLaws HeapPanic HeapWF HeapWFPrim HeapWFOps HeapWFMain HeapFrame SizeInv Spec RefineM1 ZeroCopy.
Local Open Scope N_scope.
Arguments N.add : simpl never. Arguments N.sub : simpl never. Arguments N.ltb : simpl never. Arguments N.leb : simpl never. Arguments N.eqb : simpl never.

Definition heap_vt (vt : bvt) : bool := match vt with VStatic | VOwned => false | _ => true end.
Theorem is_unique_iff_sole_all s h k ofs len vt arc b s' e e' : WF s -> hs s !! h = Some (HB (Some k) ofs len vt arc) -> heap_vt vt = true ->
  bytes_is_unique_rep (HB (Some k) ofs len vt arc) s e = OK b s' e' -> (b = true <-> refs (hs s) k = 1%nat).
Proof.
  intros [L _] Hx Hv. pose proof (lwf_typed _ _ L _ _ Hx) as Hty. unfold bytes_is_unique_rep, get_rc, mbind, get_st, mret.
  destruct vt; try discriminate Hv; simpl in Hty; destruct Hty as (st & Hs & Hl & Hb & Hr); pose proof (lwf_st _ _ L _ _ Hs) as Hok; unfold st_ok in Hok; rewrite Hl in Hok.
  - destruct Hr as [Hcl Hr]. rewrite Hcl in Hok. destruct arc.
    + destruct Hr as (rc & Hc). rewrite Hs, Hc in *. destruct Hok as (_ & _ & -> & Hn). intros [= <- _ _]. split; intros H; lia.
    + destruct Hr as [Hc _]. rewrite Hc in Hok. destruct Hok as [_ Hn]. intros [= <- _ _]. done.
  - destruct Hr as [Hcl Hr]. rewrite Hcl in Hok. destruct arc.
    + destruct Hr as (rc & Hc). rewrite Hs, Hc in *. destruct Hok as (_ & _ & -> & Hn). intros [= <- _ _]. split; intros H; lia.
    + destruct Hr as [Hc _]. rewrite Hc in Hok. destruct Hok as [_ Hn]. intros [= <- _ _]. done.
  - destruct Hr as (Hcl & rc & Hc). rewrite Hs, Hcl, Hc in *. destruct Hok as (_ & _ & -> & Hn). intros [= <- _ _]. split; intros H; lia.
  - destruct Hr as (Hcl & oc & rc & Hc). rewrite Hs, Hc in *. destruct Hcl as [Hcl|Hcl]; rewrite Hcl in Hok.
    + destruct Hok as (_ & _ & -> & Hn). intros [= <- _ _]. split; intros H; lia.
    + destruct Hok as (_ & _ & _ & -> & Hn). intros [= <- _ _]. split; intros H; lia.
Qed.
(* try_into_mut / Into<BytesMut> of a unique Bytes: in place *)
Theorem unique_into_mut_in_place s h x v s1 e e1 : WF s -> dlen s -> hs s !! h = Some x -> bytes_is_unique_rep x s e = OK true s e ->
  bytes_into_mut_rep x s e = OK v s1 e1 -> dsame nK s s1 /\ stor v = stor x /\ h_ofs v = h_ofs x /\ h_len v = h_len x.
Proof.
  intros W D Hx Hu E. pose proof W as [L _]. pose proof (lwf_fresh _ _ L) as Fs. pose proof (lwf_typed _ _ L _ _ Hx) as Hty.
  destruct (deff_run nK _ _ _ _ _ _ (deff_bytes_into_mut_rep nK x s) Fs E) as [D1 _]. split; [done|].
  destruct x as [ko o l vt a| |]; try done. unfold bytes_is_unique_rep, get_rc, mbind, get_st, mret in Hu. cbn [bytes_into_mut_rep] in E.
  assert (forall k, adv_unchecked o (from_vec k (o + l) (o + l)) s e = OK v s1 e1 -> stor v = Some k /\ h_ofs v = o /\ h_len v = l) as Hadv.
  { intros k E'. unfold from_vec in E'. destruct (adv_unchecked_inv _ _ _ _ _ _ _ _ _ _ _ Fs E') as (_ & _ & _ & _ & o' & l' & c' & kd' & -> & -> & ->). simpl. split; [done|]. split; lia. }
  assert (forall k st c, sts s !! k = Some st -> s_ctrl st = CShared c 1 -> shared_to_mut k o l s e = OK v s1 e1 -> stor v = Some k /\ h_ofs v = o /\ h_len v = l) as Hsh.
  { intros k st c Hs Hc E'. unfold shared_to_mut in E'. binvn E' y. apply get_st_inv in R as (-> & -> & Hy). rewrite Hs in Hy. injection Hy as <-. rewrite Hc in E'. cbn [N.eqb Pos.eqb] in E'.
    replace (1 =? 1) with true in E' by done. binv E'. binv E'. unfold from_vec in E'. assert (sfresh s2) as F2.
    { destruct (ckeep_put_ctrl _ _ _ _ _ _ _ _ Fs D Hs R) as (_ & _ & _ & F1 & D1'). by destruct (ckeep_emit _ _ _ _ _ _ F1 D1' R0) as (_ & _ & _ & ? & _). }
    destruct (adv_unchecked_inv _ _ _ _ _ _ _ _ _ _ _ F2 E') as (_ & _ & _ & _ & o' & l' & c' & kd' & -> & -> & ->). simpl. split; [done|]. split; lia. }
  destruct vt, ko as [k|]; try done; simpl in Hty; try (destruct Hty as (st & Hs & Hlv & Hb & Hr)); rewrite ?Hs in Hu; simpl.
  - destruct a; [|by apply Hadv]. destruct Hr as (_ & rc & Hc). simpl in Hu. rewrite ?Hs in Hu. simpl in Hu. rewrite Hc in Hu. injection Hu as Hu. assert (rc = 1) as -> by lia. by eapply Hsh.
  - destruct a; [|by apply Hadv]. destruct Hr as (_ & rc & Hc). simpl in Hu. rewrite ?Hs in Hu. simpl in Hu. rewrite Hc in Hu. injection Hu as Hu. assert (rc = 1) as -> by lia. by eapply Hsh.
  - destruct Hr as (_ & rc & Hc). simpl in Hu. rewrite ?Hs in Hu. simpl in Hu. rewrite Hc in Hu. injection Hu as Hu. assert (rc = 1) as -> by lia. by eapply Hsh.
  - destruct Hr as (_ & oc & rc & Hc). simpl in Hu. rewrite ?Hs in Hu. simpl in Hu. rewrite Hc in Hu. injection Hu as Hu. assert (rc = 1) as -> by lia.
    binvn E y. apply get_st_inv in R as (-> & -> & Hy). rewrite Hs in Hy. injection Hy as <-. rewrite Hc in E. replace (1 =? 1) with true in E by done. by apply mret_inv in E as (-> & _).
Qed.
(* an empty BytesMut alone on its allocation reclaims all of it *)
Theorem sole_empty_reclaims orc n k o c kd s e x' b s1 e1 st : typed (sts s) (HM k o 0 c kd) -> sts s !! k = Some st ->
  (match kd with MVec _ => True | MArc => exists oc, s_ctrl st = CSharedV (s_size st) oc 1 end) -> n <= s_size st -> s_size st <= usize_max ->
  m_try_reclaim orc n (HM k o 0 c kd) s e = OK (x', b) s1 e1 -> b = true /\ exists k1 o1 c1 kd1, x' = HM k1 o1 0 c1 kd1 /\ n <= c1.
Proof.
  intros Ht Hs Hsole Hn Hmax E. unfold m_try_reclaim in E. destruct (n <=? c - 0) eqn:E0; [apply mret_inv in E as ([= -> ->] & _); split; [done|]; exists k, o, c, kd; split; [done|lia]|].
  unfold reserve_inner in E. destruct kd as [ocr|].
  - destruct Ht as (st0 & Hs0 & _ & _ & _ & Hcap & _). rewrite Hs in Hs0. injection Hs0 as <-.
    replace ((n <=? c - 0 + o) && (0 <=? o)) with true in E by lia. binv E. apply mret_inv in E as ([= -> ->] & _). split; [done|]. eexists _, _, _, _. split; [done|lia].
  - destruct Hsole as (oc & Hc). destruct (usize_max <? 0 + n) eqn:E1; [lia|]. binvn E y. apply get_st_inv in R as (-> & -> & Hy). rewrite Hs in Hy. injection Hy as <-. rewrite Hc in E. replace (1 =? 1) with true in E by done.
    destruct ((0 + n + o <=? usize_max) && (0 + n + o <=? s_size st)) eqn:E2; [apply mret_inv in E as ([= -> ->] & _); split; [done|]; eexists _, _, _, _; split; [done|lia]|].
    replace ((0 + n <=? s_size st) && (0 <=? o)) with true in E by lia. binv E. apply mret_inv in E as ([= -> ->] & _). split; [done|]. eexists _, _, _, _. split; [done|lia].
Qed.
(* the same, stated with the counting invariant: in a reachable state, an empty BytesMut that is the only handle on its storage *)
Theorem sole_empty_reclaims_reachable orcs i s h orc n k o c kd e x' b s1 e1 st : reach orcs i s -> hs s !! h = Some (HM k o 0 c kd) -> sts s !! k = Some st ->
  refs (hs s) k = 1%nat -> n <= s_size st -> s_size st <= usize_max ->
  m_try_reclaim orc n (HM k o 0 c kd) s e = OK (x', b) s1 e1 -> b = true /\ exists k1 o1 c1 kd1, x' = HM k1 o1 0 c1 kd1 /\ n <= c1.
Proof.
  intros Hr Hx Hs Hrefs Hn Hmax E. pose proof (reach_wf _ _ _ Hr) as [L _]. pose proof (lwf_typed _ _ L _ _ Hx) as Hty.
  eapply (sole_empty_reclaims orc n k o c kd s e x' b s1 e1 st Hty Hs); try done.
  destruct kd as [ocr|]; [done|]. destruct Hty as (st0 & Hs0 & Hlv & Hcl & (oc & rc & Hc) & _). rewrite Hs in Hs0. injection Hs0 as <-.
  pose proof (lwf_st _ _ L _ _ Hs) as Hok. unfold st_ok in Hok. rewrite Hlv, Hc, Hrefs in Hok. exists oc.
  destruct Hcl as [Hcl|Hcl]; rewrite Hcl in Hok; [destruct Hok as (_ & _ & -> & _)|destruct Hok as (_ & _ & _ & -> & _)]; done.
Qed.

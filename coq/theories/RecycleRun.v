(* End to end on the representation model M2: over ANY history of the recycling grammar (reserve / extend_from_slice / truncate / clear /
   advance / split_to on the recycling handle, drops of the parts split off earlier), of ANY length, the storage the recycling BytesMut
   sits on never exceeds max(C0, 4B + 8) bytes.  Proof: the global invariant WF of M2 (HeapWFMain) is preserved, every step is one or
   two steps of the abstract policy M3 (RecycleSim), and the policy's invariant Inv is inductive (Recycle.step_inv). *)
From stdpp Require Import gmap.
From Coq Require Import NArith ZArith Lia String.
From BV Require Import Recycle.
From BV Require Import Base BaseLemmas BufMut Heap HeapLaws HeapPanic HeapWF HeapWFPrim HeapWFOps HeapWFMain RecycleSim.
Local Open Scope Z_scope.

Inductive rop :=
| RReserve (a : N) | RExtend (d : list byte) | RTruncate (n : N) | RClear | RAdvance (c : N) | RSplitTo (c : N)
| RDropM (h' : hid) | RDropB (h' : hid).      (* a part (BytesMut or frozen Bytes) is dropped *)
Definition to_op (h : hid) (o : rop) : op :=
  match o with
  | RReserve a => OMReserve h a | RExtend d => OMExtend h d | RTruncate n => OMTruncate h n | RClear => OMClear h
  | RAdvance c => OMAdvance h c | RSplitTo c => OMSplitTo h c | RDropM h' => OMDrop h' | RDropB h' => OBDrop h'
  end.
(* std's amortised growth: Vec::reserve delivers at most max(2*old, needed, 8) *)
Definition oracle_ok (orc : oracle) (r : Recycle.st) : Prop := forall need, Z.of_N (or_pick orc need) <= Z.max (Z.max (2 * Recycle.V r) (Z.of_N need)) 8.
Definition rop_ok (B : Z) (orc : oracle) (h : hid) (r : Recycle.st) (o : rop) : Prop :=
  match o with
  | RReserve a => Recycle.len r + Z.of_N a <= B /\ oracle_ok orc r
  | RExtend d => Recycle.len r + Z.of_N (lenN d) <= B /\ oracle_ok orc r
  | RAdvance c => Z.of_N c <= Recycle.len r
  | RDropM h' | RDropB h' => h' <> h
  | _ => True
  end.

Section Run.
  Variables (B C0 orig : Z) (h : hid).
  Hypothesis HB : 0 <= B.  Hypothesis Horig : 0 <= orig <= C0.
  Hypothesis Hbig : 2 * Recycle.bound B C0 + B <= Z.of_N usize_max.      (* no usize overflow anywhere below the bound *)
  Hypothesis Hpos : Recycle.bound B C0 <= Z.of_N MAX_VEC_POS.              (* the inline offset of a Vec-form BytesMut never needs promotion *)

  (* the simulation relation *)
  Definition Sim (s : hst) : Prop := WF s /\ orig_h s h = orig /\ exists r al, absh s h al = Some r /\ Recycle.Inv B C0 r.

  Lemma sim_is_m s : Sim s -> is_m s h.
  Proof. intros (_ & _ & r & al & Ha & _). unfold absh in Ha. destruct (hs s !! h) as [[|k o l c kd|]|] eqn:E; try done. unfold is_m. eauto 10. Qed.

  Lemma sim_step orc o s e rv s1 e1 :
    Sim s -> op_ok s (to_op h o) -> (forall r al, absh s h al = Some r -> rop_ok B orc h r o) -> hstep orc (to_op h o) s e = OK rv s1 e1 -> Sim s1.
  Proof.
    intros (W & Ho & r & al & Ha & HI) Hok Hr E. specialize (Hr r al Ha).
    assert (WF s1) as W1. { pose proof (all_wfstep orc (to_op h o) s W Hok e) as H. by rewrite E in H. }
    split; [exact W1|]. pose proof HI as (Hoff & Hlen & Hcap & HV & HlB & Hvec).
    destruct o as [a|d|n|  |c|c|h'|h']; cbn [to_op rop_ok] in *.
    - destruct Hr as [Hab Horc]. destruct (sim_reserve _ _ _ _ _ _ _ _ _ _ W Ha E ltac:(lia) ltac:(lia) Horc) as (g & Ha1 & Hg & Hor).
      split; [congruence|]. eexists _, _. split; [exact Ha1|]. apply (Recycle.step_inv orig B C0 HB Horig); [done|]. cbn [Recycle.op_ok]. rewrite Ho in Hg. repeat split; [lia|lia|done].
    - destruct Hr as [Hab Horc]. destruct (sim_extend _ _ _ _ _ _ _ _ _ _ W Ha E ltac:(lia) ltac:(lia) Horc) as (g & Ha1 & Hg & Hor).
      split; [congruence|]. eexists _, _. split; [exact Ha1|].
      assert (Recycle.Inv B C0 (Recycle.step r (Recycle.Reserve (Z.of_N (lenN d)) g))) as HI1.
      { apply (Recycle.step_inv orig B C0 HB Horig); [done|]. cbn [Recycle.op_ok]. rewrite Ho in Hg. repeat split; [lia|lia|done]. }
      apply (Recycle.step_inv orig B C0 HB Horig); [done|]. cbn [Recycle.op_ok]. split; [lia|].
      cbn [Recycle.step]. unfold Recycle.reserve. repeat match goal with |- context [if ?b then _ else _] => destruct b end; cbn [Recycle.len]; lia.
    - destruct (sim_truncate _ _ _ _ _ _ _ _ _ _ Ha E) as (Ha1 & _ & Hor). split; [congruence|]. eexists _, _. split; [exact Ha1|].
      by apply (Recycle.step_inv orig B C0 HB Horig).
    - destruct (sim_clear _ _ _ _ _ _ _ _ _ Ha E) as (Ha1 & _ & Hor). split; [congruence|]. eexists _, _. split; [exact Ha1|].
      by apply (Recycle.step_inv orig B C0 HB Horig).
    - destruct (sim_advance _ _ _ _ _ _ _ _ _ _ W Ha E ltac:(lia)) as (Ha1 & _ & Hor). split; [congruence|]. eexists _, _. split; [exact Ha1|].
      by apply (Recycle.step_inv orig B C0 HB Horig).
    - destruct (sim_split_to _ _ _ _ _ _ _ _ _ _ W Ha E) as (Ha1 & _ & Hor). split; [congruence|]. eexists _, _. split; [exact Ha1|].
      by apply (Recycle.step_inv orig B C0 HB Horig).
    - destruct (sim_drop_other orc h h' (OMDrop h') _ _ _ _ _ _ al W Hr Ha ltac:(by left) E) as (_ & Ha1 & Hor). split; [congruence|].
      destruct Ha1 as [Ha1|Ha1]; eexists _, _; (split; [exact Ha1|]); [done|]. by apply (Recycle.step_inv orig B C0 HB Horig).
    - destruct (sim_drop_other orc h h' (OBDrop h') _ _ _ _ _ _ al W Hr Ha ltac:(by right) E) as (_ & Ha1 & Hor). split; [congruence|].
      destruct Ha1 as [Ha1|Ha1]; eexists _, _; (split; [exact Ha1|]); [done|]. by apply (Recycle.step_inv orig B C0 HB Horig).
  Qed.

  (* histories: each step of the grammar returns normally (a panicking call changes nothing the caller keeps: C01) *)
  Inductive rrun : hst -> list ev -> list (oracle * rop) -> hst -> list ev -> Prop :=
  | rrun_nil s e : rrun s e [] s e
  | rrun_cons s e orc o tr rv s1 e1 s2 e2 :
      op_ok s (to_op h o) -> (forall r al, absh s h al = Some r -> rop_ok B orc h r o) -> hstep orc (to_op h o) s e = OK rv s1 e1 ->
      rrun s1 e1 tr s2 e2 -> rrun s e ((orc, o) :: tr) s2 e2.

  Theorem rrun_sim s e tr s2 e2 : Sim s -> rrun s e tr s2 e2 -> Sim s2.
  Proof. intros HS Hr. induction Hr as [|s e orc o tr rv s1 e1 s2 e2 Hok Hrop E _ IH]; [done|]. apply IH. eapply sim_step; eauto. Qed.

  (* the bound on the buffer the recycling handle sits on, in every state of every history *)
  Theorem m2_recycling_bounded s e tr s2 e2 : Sim s -> rrun s e tr s2 e2 ->
    exists k o l c kd st, hs s2 !! h = Some (HM k o l c kd) /\ sts s2 !! k = Some st /\ Z.of_N (s_size st) <= Recycle.bound B C0 /\ Z.of_N o + Z.of_N c <= Z.of_N (s_size st).
  Proof.
    intros HS Hr. destruct (rrun_sim _ _ _ _ _ HS Hr) as (_ & _ & r & al & Ha & HI). unfold absh in Ha.
    destruct (hs s2 !! h) as [[|k o l c kd|]|] eqn:Hx; try done. unfold absr in Ha. destruct (sts s2 !! k) as [st|] eqn:Hs; [|done]. injection Ha as <-.
    destruct HI as (Hoff & Hlen & Hcap & HV & _). cbn [Recycle.V Recycle.off Recycle.cap] in *. exists k, o, l, c, kd, st. repeat split; try done.
  Qed.
End Run.

(* non-vacuity: with_capacity(64), then a history that fills, splits a part off, drops it, and grows by reallocation; every premise of the
   theorem is met and the final buffer is within the bound *)
Definition orc0 : oracle := {| or_caps := [] |}.
Definition ex_s0 : hst := match run_op orc0 (OMWithCapacity 64) (hst0 false) with OK _ s _ => s | _ => hst0 false end.
Definition ex_h : hid := 1%positive.
Definition ex_tr : list (oracle * rop) :=
  [(orc0, RExtend (repeat 7%N 40)); (orc0, RSplitTo 30); (orc0, RReserve 60); (orc0, RDropM 2%positive); (orc0, RExtend (repeat 9%N 50)); (orc0, RAdvance 60); (orc0, RReserve 100); (orc0, RTruncate 0); (orc0, RClear)].
Lemma ex_sim0 : Sim 100 64 0 ex_h ex_s0.
Proof.
  split; [|split].
  - pose proof (wf_preserved orc0 (OMWithCapacity 64) (hst0 false) (wf0 false) I) as H. unfold ex_s0. destruct (run_op orc0 (OMWithCapacity 64) (hst0 false)); [done|apply wf0|done].
  - by vm_compute.
  - eexists _, 0. split; [by vm_compute|]. unfold Recycle.Inv, Recycle.bound; cbn. lia.
Qed.
Ltac ex_step := eapply rrun_cons;
  [ first [ unfold op_ok, to_op, is_m; do 5 eexists; vm_compute; reflexivity | unfold op_ok, to_op, is_b; do 5 eexists; vm_compute; reflexivity ]
  | intros r al Ha; vm_compute in Ha; injection Ha as <-; cbn [rop_ok]; try done; try (split; [cbn; lia | intros need; cbn; lia]); try (cbn; lia)
  | vm_compute; reflexivity | ].
Example m2_recycling_nonvacuous : exists s2 e2, rrun 100 ex_h ex_s0 [] ex_tr s2 e2.
Proof. do 2 eexists. unfold ex_tr. repeat ex_step. apply rrun_nil. Qed.

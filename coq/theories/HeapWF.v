(* The global invariant of M2.  LWF HM s: a LOGICAL handle map HM (the handles that exist, including the ones an operation
   currently holds in local variables) is consistent with the storages of s:
     typing    every handle's representation matches its storage (class, liveness, control-block shape, window inside);
     counting  a storage's reference count is the number of handles holding it; a storage without control block has one holder;
               a dead storage has none (so: freed exactly once, after the last handle);
     disjoint  the non-empty window [ofs, ofs+cap) of a shared BytesMut is disjoint from the window of every other BytesMut and from the
               view of every frozen Bytes on the same buffer;
     fresh     identifiers below the counters.
   WF s := LWF (hs s) s.  Definitions and the map-level lemmas; the per-function lemmas are in HeapWFPrim.v / HeapWFOps.v. *)
From stdpp Require Import gmap.
From Coq Require Import NArith Lia.
From BV Require Import Base BaseLemmas BufMut Heap.
Local Open Scope N_scope.

Notation hmap := (gmap positive handle).
Notation smap := (gmap positive storage).

(* the storage a handle holds a reference to / owns *)
Definition holds (x : handle) : option positive :=
  match x with
  | HB (Some k) _ _ vt _ => match vt with VStatic => None | _ => Some k end
  | HB None _ _ _ _ => None
  | HM k _ _ _ _ => Some k
  | HV k _ _ => Some k
  end.
Definition holdsP (k : positive) (p : positive * handle) : Prop := holds p.2 = Some k.
Global Instance holdsP_dec k p : Decision (holdsP k p). Proof. unfold holdsP. apply _. Defined.
Definition refs (HM : hmap) (k : positive) : nat := size (base.filter (holdsP k) HM).
Definition w (x : handle) (k : positive) : nat := if decide (holds x = Some k) then 1%nat else 0%nat.

Lemma refs_empty k : refs ∅ k = 0%nat.
Proof. unfold refs. by rewrite map_filter_empty, map_size_empty. Qed.
Lemma refs_insert_fresh HM h x k : HM !! h = None -> refs (<[h := x]> HM) k = (w x k + refs HM k)%nat.
Proof.
  intros Hn. unfold refs, w. destruct (decide (holds x = Some k)) as [Hh|Hh].
  - rewrite map_filter_insert_True by exact Hh. rewrite map_size_insert_None; [lia|]. rewrite map_filter_lookup_None. by left.
  - rewrite map_filter_insert_False by exact Hh. by rewrite delete_notin.
Qed.
Lemma refs_delete HM h x k : HM !! h = Some x -> refs HM k = (w x k + refs (delete h HM) k)%nat.
Proof.
  intros Hs. rewrite <- (insert_delete HM h x) at 1 by done. apply refs_insert_fresh. apply lookup_delete.
Qed.
Lemma refs_insert HM h x x' k : HM !! h = Some x -> (refs (<[h := x']> HM) k + w x k = w x' k + refs HM k)%nat.
Proof.
  intros Hs. rewrite <- (insert_delete_insert HM h x'). rewrite refs_insert_fresh by apply lookup_delete.
  rewrite (refs_delete HM h x k Hs). lia.
Qed.
Lemma refs_pos HM h x k : HM !! h = Some x -> holds x = Some k -> (1 <= refs HM k)%nat.
Proof. intros Hs Hh. rewrite (refs_delete _ _ _ k Hs). unfold w. rewrite decide_True by done. lia. Qed.
(* with exactly one holder, every other handle does not hold k *)
Lemma refs_one_other HM h x k h' y : refs HM k = 1%nat -> HM !! h = Some x -> holds x = Some k -> HM !! h' = Some y -> h' <> h -> holds y <> Some k.
Proof.
  intros H1 Hs Hh Hs' Hne Hy. rewrite (refs_delete _ _ _ k Hs) in H1. unfold w in H1. rewrite decide_True in H1 by done.
  assert (delete h HM !! h' = Some y) as Hd by (by rewrite lookup_delete_ne).
  pose proof (refs_pos _ _ _ _ Hd Hy). lia.
Qed.

(* ---- typing of one handle against the storages ---- *)
Definition heapish (c : scls) : Prop := c = SHeap \/ c = SDangling.
Definition typed (sm : smap) (x : handle) : Prop :=
  match x with
  | HB None ofs len vt arc => len = 0 /\ vt = VStatic
  | HB (Some k) ofs len VStatic arc => len = 0 \/ exists st, sm !! k = Some st /\ s_cls st = SStatic /\ ofs + len <= s_size st
  | HB (Some k) ofs len vt arc =>
      exists st, sm !! k = Some st /\ s_live st = true /\ ofs + len <= s_size st /\
      match vt with
      | VOwned => s_cls st = SOwnerMem /\ exists rc o, s_ctrl st = COwned rc o
      | VPromEven | VPromOdd => s_cls st = SHeap /\ if arc then exists rc, s_ctrl st = CShared (s_size st) rc else s_ctrl st = CNone /\ ofs + len = s_size st
      | VShared => s_cls st = SHeap /\ exists rc, s_ctrl st = CShared (s_size st) rc
      | VSharedV => heapish (s_cls st) /\ exists o rc, s_ctrl st = CSharedV (s_size st) o rc
      | VStatic => False
      end
  | HM k ofs len cap (MVec o) => exists st, sm !! k = Some st /\ s_live st = true /\ heapish (s_cls st) /\ s_ctrl st = CNone /\ cap + ofs = s_size st /\ len <= cap
  | HM k ofs len cap MArc => exists st, sm !! k = Some st /\ s_live st = true /\ heapish (s_cls st) /\ (exists o rc, s_ctrl st = CSharedV (s_size st) o rc) /\ ofs + cap <= s_size st /\ len <= cap
  | HV k len cap => exists st, sm !! k = Some st /\ s_live st = true /\ heapish (s_cls st) /\ s_ctrl st = CNone /\ cap = s_size st /\ len <= cap
  end.

(* what typing can see of a storage: everything but the data and the value of the reference count *)
Definition ctrl_shape (c : ctrl) : ctrl :=
  match c with CShared cap _ => CShared cap 0 | CSharedV v o _ => CSharedV v o 0 | CSharedVEmpty o _ => CSharedVEmpty o 0 | COwned _ o => COwned 0 o | CNone => CNone end.
Definition shape (st : storage) : N * bool * scls * ctrl := (s_size st, s_live st, s_cls st, ctrl_shape (s_ctrl st)).

(* the storage whose shape the typing of x depends on *)
Definition uses (x : handle) : option positive :=
  match x with HB (Some k) _ len VStatic _ => if len =? 0 then None else Some k | _ => holds x end.
Lemma typed_shape sm sm' x : (forall k st, uses x = Some k -> sm !! k = Some st -> exists st', sm' !! k = Some st' /\ shape st' = shape st) ->
  typed sm x -> typed sm' x.
Proof.
  intros Hf. destruct x as [[k|] ofs len vt arc|k ofs len cap [o|]|k len cap]; simpl in *; try done.
  - destruct vt; simpl in *.
    + destruct (len =? 0) eqn:E0. { intros _. left. lia. }
      intros [?|(st & Hs & Hc & Hb)]; [by left|]. right. destruct (Hf k st) as (st' & Hs' & Hsh); [done|done|].
      unfold shape in Hsh. injection Hsh as Hsz Hl Hcl Hct. exists st'. rewrite Hcl, Hsz. done.
    + intros (st & Hs & Hl & Hb & Hcl & rc & o & Hc). destruct (Hf k st) as (st' & Hs' & Hsh); [done|done|].
      unfold shape in Hsh. injection Hsh as Hsz Hlv Hcls Hct. exists st'. rewrite Hlv, Hcls, Hsz. repeat split; try done.
      rewrite Hc in Hct. destruct (s_ctrl st'); simpl in Hct; try done. injection Hct as <-. eauto.
    + intros (st & Hs & Hl & Hb & Hcl & Hk). destruct (Hf k st) as (st' & Hs' & Hsh); [done|done|].
      unfold shape in Hsh. injection Hsh as Hsz Hlv Hcls Hct. exists st'. rewrite Hlv, Hcls, Hsz. repeat split; try done.
      destruct arc.
      * destruct Hk as [rc Hc]. rewrite Hc in Hct. destruct (s_ctrl st'); simpl in Hct; try done. injection Hct as ->. eauto.
      * destruct Hk as [Hc He]. rewrite Hc in Hct. split; [|done]. destruct (s_ctrl st'); simpl in Hct; done.
    + intros (st & Hs & Hl & Hb & Hcl & Hk). destruct (Hf k st) as (st' & Hs' & Hsh); [done|done|].
      unfold shape in Hsh. injection Hsh as Hsz Hlv Hcls Hct. exists st'. rewrite Hlv, Hcls, Hsz. repeat split; try done.
      destruct arc.
      * destruct Hk as [rc Hc]. rewrite Hc in Hct. destruct (s_ctrl st'); simpl in Hct; try done. injection Hct as ->. eauto.
      * destruct Hk as [Hc He]. rewrite Hc in Hct. split; [|done]. destruct (s_ctrl st'); simpl in Hct; done.
    + intros (st & Hs & Hl & Hb & Hcl & rc & Hc). destruct (Hf k st) as (st' & Hs' & Hsh); [done|done|].
      unfold shape in Hsh. injection Hsh as Hsz Hlv Hcls Hct. exists st'. rewrite Hlv, Hcls, Hsz. repeat split; try done.
      rewrite Hc in Hct. destruct (s_ctrl st'); simpl in Hct; try done. injection Hct as ->. eauto.
    + intros (st & Hs & Hl & Hb & Hcl & o & rc & Hc). destruct (Hf k st) as (st' & Hs' & Hsh); [done|done|].
      unfold shape in Hsh. injection Hsh as Hsz Hlv Hcls Hct. exists st'. rewrite Hlv, Hcls, Hsz. repeat split; try done.
      rewrite Hc in Hct. destruct (s_ctrl st'); simpl in Hct; try done. injection Hct as -> ->. eauto.
  - intros (st & Hs & Hl & Hcl & Hc & Hb). destruct (Hf k st) as (st' & Hs' & Hsh); [done|done|].
    unfold shape in Hsh. injection Hsh as Hsz Hlv Hcls Hct. exists st'. rewrite Hlv, Hcls, Hsz. repeat split; try done; try apply Hb.
    rewrite Hc in Hct. destruct (s_ctrl st'); simpl in Hct; done.
  - intros (st & Hs & Hl & Hcl & (o & rc & Hc) & Hb). destruct (Hf k st) as (st' & Hs' & Hsh); [done|done|].
    unfold shape in Hsh. injection Hsh as Hsz Hlv Hcls Hct. exists st'. rewrite Hlv, Hcls, Hsz. repeat split; try done; try apply Hb.
    rewrite Hc in Hct. destruct (s_ctrl st'); simpl in Hct; try done. injection Hct as -> ->. eauto.
  - intros (st & Hs & Hl & Hcl & Hc & Hb). destruct (Hf k st) as (st' & Hs' & Hsh); [done|done|].
    unfold shape in Hsh. injection Hsh as Hsz Hlv Hcls Hct. exists st'. rewrite Hlv, Hcls, Hsz. repeat split; try done; try apply Hb.
    rewrite Hc in Hct. destruct (s_ctrl st'); simpl in Hct; done.
Qed.

(* ---- per-storage invariant, given the number n of handles holding it ---- *)
Definition owner_ok (om : gmap positive owner) (o k : positive) : Prop := exists wv, om !! o = Some wv /\ o_dropped wv = false /\ o_mem wv = k.
Definition st_ok (om : gmap positive owner) (k : positive) (st : storage) (n : nat) : Prop :=
  match s_cls st with
  | SStatic => s_live st = true /\ s_ctrl st = CNone
  | SOwnerMem => if s_live st then exists rc o, s_ctrl st = COwned rc o /\ rc = N.of_nat n /\ (1 <= n)%nat /\ owner_ok om o k
                 else s_ctrl st = CNone /\ n = 0%nat
  | SHeap => s_size st <> 0 /\
             if s_live st then
               match s_ctrl st with
               | CNone => n = 1%nat
               | CShared cap rc => cap = s_size st /\ rc = N.of_nat n /\ (1 <= n)%nat
               | CSharedV vcap o rc => vcap = s_size st /\ rc = N.of_nat n /\ (1 <= n)%nat
               | _ => False
               end
             else s_ctrl st = CNone /\ n = 0%nat
  | SDangling => s_size st = 0 /\ s_live st = true /\
               match s_ctrl st with
               | CNone => (n <= 1)%nat
               | CSharedV vcap o rc => vcap = 0 /\ rc = N.of_nat n /\ (1 <= n)%nat
               | _ => False
               end
  end.

Definition mwin (x : handle) : option (positive * N * N) := match x with HM k ofs _ cap MArc => Some (k, ofs, cap) | _ => None end.
(* the region a handle may READ on a buffer shared with BytesMut handles: a BytesMut's window, a frozen Bytes' view *)
Definition rwin (x : handle) : option (positive * N * N) :=
  match x with HM k ofs _ cap MArc => Some (k, ofs, cap) | HB (Some k) ofs len VSharedV _ => Some (k, ofs, len) | _ => None end.
(* a shared BytesMut's (non-empty) window is disjoint from the window / view of every other handle on the buffer *)
Definition disj (HM : hmap) : Prop :=
  forall h1 h2 x1 x2 k o1 c1 o2 c2, h1 <> h2 -> HM !! h1 = Some x1 -> HM !! h2 = Some x2 ->
    mwin x1 = Some (k, o1, c1) -> rwin x2 = Some (k, o2, c2) -> c1 = 0 \/ c2 = 0 \/ o1 + c1 <= o2 \/ o2 + c2 <= o1.
Lemma mwin_rwin x w : mwin x = Some w -> rwin x = Some w.
Proof. destruct x as [| ? ? ? ? []|]; simpl; done. Qed.
Lemma rwin_none_mwin x : rwin x = None -> mwin x = None.
Proof. destruct x as [[?|] ? ? [] ?| ? ? ? ? []|]; simpl; done. Qed.

Definition sfresh (s : hst) : Prop :=
  (forall p, is_Some (sts s !! xO p) -> (p < next_real s)%positive) /\ (forall p, is_Some (sts s !! xI p) -> (p < next_pseudo s)%positive) /\
  (forall o, is_Some (owners s !! o) -> (o < next_o s)%positive) /\ sts s !! 1%positive = None.

Record LWF (HM : hmap) (s : hst) : Prop := {
  lwf_typed : forall h x, HM !! h = Some x -> typed (sts s) x;
  lwf_st : forall k st, sts s !! k = Some st -> st_ok (owners s) k st (refs HM k);
  lwf_disj : disj HM;
  lwf_fresh : sfresh s }.
Definition hfresh (s : hst) : Prop := forall h, is_Some (hs s !! h) -> (h < next_h s)%positive.
Definition WF (s : hst) : Prop := LWF (hs s) s /\ hfresh s.

Lemma wf0 odd : WF (hst0 odd).
Proof.
  split; [constructor|]; unfold hst0, sfresh, hfresh, disj; cbn [sts hs owners next_real next_pseudo next_o next_h].
  - intros h x H. by apply lookup_empty_Some in H.
  - intros k st H. by apply lookup_empty_Some in H.
  - intros h1 h2 x1 x2 ? ? ? ? ? ? H. by apply lookup_empty_Some in H.
  - repeat split; try (intros ? [? H]; by apply lookup_empty_Some in H).
  - intros h [? H]. by apply lookup_empty_Some in H.
Qed.

(* a holder's storage exists *)
Lemma typed_holds sm x k : typed sm x -> holds x = Some k -> exists st, sm !! k = Some st /\ s_live st = true.
Proof.
  destruct x as [[k'|] ofs len vt arc|k' ofs len cap [o|]|k' len cap]; simpl; try done.
  - destruct vt; try done; intros (st & Hs & Hl & _) [= <-]; eauto.
  - intros (st & Hs & Hl & _) [= <-]; eauto.
  - intros (st & Hs & Hl & _) [= <-]; eauto.
  - intros (st & Hs & Hl & _) [= <-]; eauto.
Qed.

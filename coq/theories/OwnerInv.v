(* C03 on M2, the owner clause of Bytes::from_owner: in every reachable state, for every owner ever handed to from_owner,
   as_ref was called exactly once, drop ran at most once, and the owner has been dropped exactly when no handle holds its memory any more
   ("not before the last view is gone and no later than the last handle").
   Method: a storage-indexed / owner-indexed invariant OInv preserved by every primitive (same effect-system pattern as dlen, hsz),
   combined with the counting invariant WF. *)
From stdpp Require Import gmap.
From Coq Require Import NArith Lia String.
From BV Require Import Base BaseLemmas BufMut Heap HeapLaws HeapPanic HeapWF HeapWFPrim HeapWFOps HeapWFMain HeapFrame.
Local Open Scope N_scope.
Arguments N.add : simpl never. Arguments N.sub : simpl never. Arguments N.ltb : simpl never. Arguments N.leb : simpl never. Arguments N.eqb : simpl never.

(* per owner *)
Definition own_ok (w : owner) : Prop := o_asref w = 1 /\ o_drops w = (if o_dropped w then 1 else 0).
(* per storage, relative to the owner table *)
Definition sto_ok (om : gmap positive owner) (k : positive) (st : storage) : Prop :=
  (s_cls st = SOwnerMem -> s_live st = false -> exists o w, om !! o = Some w /\ o_mem w = k /\ o_dropped w = true) /\
  (forall rc o, s_ctrl st = COwned rc o -> s_cls st = SOwnerMem /\ exists w, om !! o = Some w /\ o_mem w = k).
(* every owner's memory is a storage of its own *)
Definition O3 (sm : smap) (om : gmap positive owner) : Prop :=
  (forall o w, om !! o = Some w -> is_Some (sm !! o_mem w)) /\ (forall o1 o2 w1 w2, om !! o1 = Some w1 -> om !! o2 = Some w2 -> o_mem w1 = o_mem w2 -> o1 = o2).
Definition OInv (s : hst) : Prop := (forall o w, owners s !! o = Some w -> own_ok w) /\ (forall k st, sts s !! k = Some st -> sto_ok (owners s) k st) /\ O3 (sts s) (owners s).
Lemma O3_insert sm om k x : O3 sm om -> O3 (<[k := x]> sm) om.
Proof. intros [A B]. split; [|done]. intros o w Ho. destruct (decide (o_mem w = k)) as [->|?]; [rewrite lookup_insert; by eexists|rewrite lookup_insert_ne by done; by eapply A]. Qed.
Definition oeff {A} (m : M A) (s : hst) : Prop := OInv s -> forall e, match m s e with OK _ s1 _ | PANIC s1 _ => OInv s1 | UB _ => True end.

Lemma oeff_ret {A} (a : A) s : oeff (mret a) s. Proof. intros D e. done. Qed.
Lemma oeff_panic {A} s : oeff (@mpanic A) s. Proof. intros D e. done. Qed.
Lemma oeff_ub {A} w s : oeff (@mub A w) s. Proof. intros D e. done. Qed.
Lemma oeff_bind {A B} (m : M A) (f : A -> M B) s : oeff m s -> (forall a s1 e e1, m s e = OK a s1 e1 -> oeff (f a) s1) -> oeff (mbind m f) s.
Proof. intros Hm Hf D e. unfold mbind. specialize (Hm D e). destruct (m s e) as [a s1 e1|s1 e1|wv] eqn:E; [|done|done]. by apply (Hf a s1 e e1 E Hm e1). Qed.
Lemma oeff_bind_keeps {A B} (m : M A) (f : A -> M B) s : keeps m -> (forall a, oeff (f a) s) -> oeff (mbind m f) s.
Proof. intros Hk Hf D e. unfold mbind. specialize (Hk s e). destruct (m s e) as [a s1 e1|s1 e1|]; [subst; by apply Hf|by subst|done]. Qed.
Lemma oeff_of_sts_same {A} (m : M A) s : sts_same m -> oeff m s.
Proof. intros H D e. specialize (H s e). destruct (m s e) as [a s1 e1|s1 e1|]; [| |done]; destruct H as (H1 & H2 & _); unfold OInv; by rewrite H1, H2. Qed.
(* a storage is replaced by one of the same class and liveness whose control block is not a (new) owner block *)
Lemma oeff_put_st k x x' s : sts s !! k = Some x -> s_cls x' = s_cls x -> (s_live x' = s_live x \/ s_cls x <> SOwnerMem) ->
  (forall rc o, s_ctrl x' = COwned rc o -> exists rc', s_ctrl x = COwned rc' o) -> oeff (put_st k x') s.
Proof.
  intros Hk Hc Hl Hw (D1 & D2 & D3) e. simpl. split; [done|]. split; [|by apply O3_insert]. intros k2 st2. simpl. destruct (decide (k2 = k)) as [->|?]; [|rewrite lookup_insert_ne by done; apply D2].
  rewrite lookup_insert. intros [= <-]. destruct (D2 _ _ Hk) as [A B]. split.
  - intros H1 H2. rewrite Hc in H1. destruct Hl as [Hl|Hl]; [|done]. rewrite Hl in H2. by apply A.
  - intros rc o Ho. destruct (Hw _ _ Ho) as (rc' & Hx). rewrite Hc. by eapply B.
Qed.
Lemma oeff_get_st {B} k (f : storage -> M B) s : (forall x, sts s !! k = Some x -> oeff (f x) s) -> oeff (mbind (get_st k) f) s.
Proof. intros H D e. unfold mbind, get_st. destruct (sts s !! k) as [x|] eqn:E; [|done]. apply (H x eq_refl D e). Qed.
Lemma oeff_mget {B} (f : hst -> M B) s : oeff (f s) s -> oeff (mbind mget f) s.
Proof. intros H D e. unfold mbind, mget. by apply H. Qed.
Lemma oeff_upd_ctrl k c s : (forall rc o, c <> COwned rc o) -> oeff (upd_st k (with_ctrl c)) s.
Proof.
  intros Hc. unfold upd_st. apply oeff_get_st. intros x Hx. eapply (oeff_put_st k x _ s Hx); [reflexivity|by left|]. cbn [with_ctrl s_ctrl]. intros rc o H. by destruct (Hc _ _ H).
Qed.
Create HintDb oeff.
Ltac oput_side := first [reflexivity | by left | (right; congruence) | (let Hq := fresh in intros ? ? Hq; first [discriminate | (injection Hq as <- <-; eexists; eassumption) | (eexists; eassumption) | congruence])].
Ltac oeff_step :=
  match goal with
  | |- oeff (mbind (get_st _) _) _ => apply oeff_get_st; intros
  | |- oeff (mbind (mcheck _ _) _) _ => apply oeff_bind_keeps; [apply keeps_mcheck|intros]
  | |- oeff (mbind (massert _) _) _ => apply oeff_bind_keeps; [apply keeps_massert|intros]
  | |- oeff (mbind (emit _) _) _ => apply oeff_bind_keeps; [apply keeps_emit|intros]
  | |- oeff (mbind (get_h _) _) _ => apply oeff_bind_keeps; [apply keeps_get_h|intros]
  | |- oeff (mbind (mret _) _) _ => apply oeff_bind_keeps; [apply keeps_ret|intros]
  | |- oeff (mbind (b_parts _) _) _ => apply oeff_bind_keeps; [apply keeps_b_parts|intros]
  | |- oeff (mbind (m_parts _) _) _ => apply oeff_bind_keeps; [apply keeps_m_parts|intros]
  | |- oeff (mbind (mread _ _ _) _) _ => apply oeff_bind_keeps; [apply keeps_mread|intros]
  | |- oeff (mbind mget _) _ => apply oeff_mget
  | |- oeff (mbind _ _) _ => apply oeff_bind; [|intros]
  | |- oeff (mret _) _ => apply oeff_ret
  | |- oeff mpanic _ => apply oeff_panic
  | |- oeff (mub _) _ => apply oeff_ub
  | |- oeff (emit _) _ => apply oeff_of_sts_same, ss_emit
  | |- oeff (get_st _) _ => apply oeff_of_sts_same, ss_get_st
  | |- oeff (get_h _) _ => apply oeff_of_sts_same, ss_get_h
  | |- oeff (put_h _ _) _ => apply oeff_of_sts_same, ss_put_h
  | |- oeff (del_h _) _ => apply oeff_of_sts_same, ss_del_h
  | |- oeff (new_h _) _ => apply oeff_of_sts_same, ss_new_h
  | |- oeff (massert _) _ => apply oeff_of_sts_same, ss_massert
  | |- oeff (mcheck _ _) _ => apply oeff_of_sts_same, ss_mcheck
  | |- oeff (b_parts _) _ => apply oeff_of_sts_same, ss_b_parts
  | |- oeff (m_parts _) _ => apply oeff_of_sts_same, ss_m_parts
  | |- oeff mget _ => apply oeff_of_sts_same, ss_mget
  | H : sts ?s !! ?k = Some ?x |- oeff (put_st ?k _) ?s => eapply (oeff_put_st k x _ s H); [oput_side|oput_side|cbn [with_ctrl with_data dead s_ctrl]; oput_side]
  | |- oeff (upd_st _ (with_ctrl _)) _ => apply oeff_upd_ctrl; intros ? ?; discriminate
  | |- oeff (if ?c then _ else _) _ => destruct c eqn:?
  | |- oeff (match ?x with _ => _ end) _ => destruct x eqn:?
  | |- oeff (let '(_, _) := ?p in _) _ => destruct p
  end.
Ltac oeff_auto := repeat (oeff_step || (progress eauto with oeff)).
Lemma oeff_inc_rc k s : oeff (inc_rc k) s. Proof. unfold inc_rc. oeff_auto. Qed.
Lemma oeff_get_rc k s : oeff (get_rc k) s. Proof. unfold get_rc. oeff_auto. Qed.
Lemma oeff_mread k o l s : oeff (mread k o l) s. Proof. apply oeff_of_sts_same. intros s0 e. pose proof (keeps_mread k o l s0 e) as H. destruct (mread k o l s0 e); try done; by subst. Qed.
Lemma oeff_free_buf k sz s : oeff (free_buf k sz) s. Proof. unfold free_buf. oeff_auto. Qed.
Global Hint Resolve oeff_inc_rc oeff_get_rc oeff_mread oeff_free_buf : oeff.
Lemma oeff_drop_vec k c s : oeff (drop_vec k c) s. Proof. unfold drop_vec. oeff_auto. Qed.
Lemma oeff_mwrite k o bs s : oeff (mwrite k o bs) s. Proof. unfold mwrite. oeff_auto. Qed.
Global Hint Resolve oeff_drop_vec oeff_mwrite : oeff.
Lemma sto_ok_mono om om' k st : (forall o w, om !! o = Some w -> exists w', om' !! o = Some w' /\ o_mem w' = o_mem w /\ (o_dropped w = true -> o_dropped w' = true)) -> sto_ok om k st -> sto_ok om' k st.
Proof.
  intros Hm [A B]. split.
  - intros H1 H2. destruct (A H1 H2) as (o & w & Ho & Hk & Hd). destruct (Hm _ _ Ho) as (w' & Ho' & Hk' & Hd'). exists o, w'. split; [done|]. split; [congruence|auto].
  - intros rc o Hc. destruct (B _ _ Hc) as (Hcl & w & Ho & Hk). destruct (Hm _ _ Ho) as (w' & Ho' & Hk' & _). split; [done|]. exists w'. split; [done|congruence].
Qed.
Lemma oeff_release k s : oeff (release k) s.
Proof.
  unfold release. apply oeff_get_st. intros x Hx. destruct (s_ctrl x) eqn:Hc; try (apply oeff_ub).
  - oeff_auto.
  - oeff_auto.
  - oeff_auto.
  - apply oeff_bind_keeps; [apply keeps_mcheck|intros _]. destruct (rc =? 1); [|oeff_auto].
    apply oeff_mget. destruct (owners s !! owner) as [w|] eqn:Ho; [|apply oeff_ub].
    intros (D1 & D2 & D3) e. unfold mbind, mcheck. destruct (o_dropped w) eqn:Hd; [done|]. cbn [negb]. unfold mret, mput, emit, get_st, put_st. cbn [sts set_owners set_sts]. rewrite Hx.
    destruct (D2 _ _ Hx) as [A B]. destruct (B _ _ Hc) as (Hcl & w0 & Ho0 & Hk0). rewrite Ho in Ho0. injection Ho0 as <-.
    destruct (D1 _ _ Ho) as [Ha Hdr]. rewrite Hd in Hdr.
    set (w' := {| o_dropped := true; o_asref := o_asref w; o_drops := o_drops w + 1; o_mem := o_mem w |}).
    assert (forall o1 w1, owners s !! o1 = Some w1 -> exists w1', <[owner := w']> (owners s) !! o1 = Some w1' /\ o_mem w1' = o_mem w1 /\ (o_dropped w1 = true -> o_dropped w1' = true)) as Hmono.
    { intros o1 w1 H1. destruct (decide (o1 = owner)) as [->|?]; [rewrite lookup_insert; rewrite Ho in H1; injection H1 as <-; by exists w'|rewrite lookup_insert_ne by done; eauto]. }
    assert (OInv {| sts := <[k := dead x]> (sts s); hs := hs s; owners := <[owner := w']> (owners s); next_real := next_real s; next_pseudo := next_pseudo s; next_h := next_h s; next_o := next_o s; odd_mode := odd_mode s |}) as HI.
    { split; [|split]; cbn [owners sts].
      - intros o1 w1. destruct (decide (o1 = owner)) as [->|?]; [rewrite lookup_insert; intros [= <-]; split; cbn; [done|rewrite Hdr; done]|rewrite lookup_insert_ne by done; apply D1].
      - intros k2 st2. destruct (decide (k2 = k)) as [->|?]; [|rewrite lookup_insert_ne by done; intros H2; eapply sto_ok_mono; [exact Hmono|by apply D2]].
        rewrite lookup_insert. intros [= <-]. split; [|done]. intros _ _. exists owner, w'. rewrite lookup_insert. done.
      - apply O3_insert. destruct D3 as [A3 B3]. split.
        + intros o1 w1. destruct (decide (o1 = owner)) as [->|?]; [rewrite lookup_insert; intros [= <-]; by apply (A3 _ _ Ho)|rewrite lookup_insert_ne by done; apply A3].
        + intros o1 o2 w1 w2 H1 H2 Hm. assert (forall oo ww, <[owner := w']> (owners s) !! oo = Some ww -> exists ww0, owners s !! oo = Some ww0 /\ o_mem ww0 = o_mem ww) as Hback.
          { intros oo ww. destruct (decide (oo = owner)) as [->|?]; [rewrite lookup_insert; intros [= <-]; by exists w|rewrite lookup_insert_ne by done; eauto]. }
          destruct (Hback _ _ H1) as (a1 & G1 & M1). destruct (Hback _ _ H2) as (a2 & G2 & M2). eapply B3; [exact G1|exact G2|congruence]. }
    by destruct (s_size x =? 0).
Qed.
Global Hint Resolve oeff_release : oeff.
Lemma oeff_alloc_buf size init s : oeff (alloc_buf size init) s.
Proof.
  intros (D1 & D2 & D3) e. unfold alloc_buf, mbind, mget. destruct (size =? 0).
  - simpl. split; [done|]. split; [|by apply O3_insert]. intros k st. simpl. destruct (decide (k = xI (next_pseudo s))) as [->|?]; [rewrite lookup_insert; intros [= <-]; by split|]. rewrite lookup_insert_ne by done. apply D2.
  - destruct (isize_max <? size); [done|]. simpl. split; [done|]. split; [|by apply O3_insert]. intros k st. simpl.
    destruct (decide (k = xO (next_real s))) as [->|?]; [rewrite lookup_insert; intros [= <-]; by split|]. rewrite lookup_insert_ne by done. apply D2.
Qed.
Global Hint Resolve oeff_alloc_buf : oeff.
Lemma oeff_put_st_plain k x' s : s_cls x' <> SOwnerMem -> (forall rc o, s_ctrl x' <> COwned rc o) -> oeff (put_st k x') s.
Proof.
  intros Hc Hw (D1 & D2 & D3) e. simpl. split; [done|]. split; [|by apply O3_insert]. intros k2 st2. simpl. destruct (decide (k2 = k)) as [->|?]; [|rewrite lookup_insert_ne by done; apply D2].
  rewrite lookup_insert. intros [= <-]. split; [done|]. intros rc o Ho. by destruct (Hw _ _ Ho).
Qed.
Lemma oeff_realloc_buf orc k oldcap keep need s : oeff (realloc_buf orc k oldcap keep need) s.
Proof.
  unfold realloc_buf. destruct (isize_max <? need); [apply oeff_panic|]. apply oeff_get_st. intros x Hx. apply oeff_mget.
  destruct (s_cls x) eqn:Hcl; try apply oeff_ub.
  - repeat (apply oeff_bind_keeps; [apply keeps_mcheck|intros _]).
    intros (D1 & D2 & D3) e. unfold mbind, mput, emit, mret. simpl. split; [done|]. split; [|by do 2 apply O3_insert]. intros k2 st2. simpl. destruct (D2 _ _ Hx) as [A B].
    destruct (decide (k2 = xO (next_real s))) as [->|?].
    { rewrite lookup_insert. intros [= <-]. split; [done|]. cbn [s_ctrl s_cls]. intros rc o Hc. destruct (B _ _ Hc) as [? _]. congruence. }
    rewrite lookup_insert_ne by done. destruct (decide (k2 = k)) as [->|?]; [rewrite lookup_insert; intros [= <-]; split; [cbn; congruence|done]|]. rewrite lookup_insert_ne by done. apply D2.
  - intros D. assert (forall rc o, s_ctrl x <> COwned rc o) as Hno.
    { intros rc o Hc. destruct D as (_ & D2 & _). destruct (D2 _ _ Hx) as [_ B]. destruct (B _ _ Hc) as [? _]. congruence. }
    revert D. apply oeff_bind; [apply oeff_alloc_buf|]. intros k' s1 e e1 Ea. apply oeff_bind; [by apply oeff_upd_ctrl|]. intros.
    apply oeff_bind; [|intros; apply oeff_ret]. apply oeff_put_st_plain; cbn [with_ctrl s_cls s_ctrl]; [congruence|done].
Qed.
Global Hint Resolve oeff_realloc_buf : oeff.

Lemma oeff_copy_to_front k o l s : oeff (copy_to_front k o l) s. Proof. unfold copy_to_front. oeff_auto. Qed.
Global Hint Resolve oeff_copy_to_front : oeff.
Lemma oeff_bytes_from_vec k l c s : oeff (bytes_from_vec k l c) s. Proof. unfold bytes_from_vec. oeff_auto. Qed.
Lemma oeff_shallow_clone_arc k o l s : oeff (shallow_clone_arc k o l) s. Proof. unfold shallow_clone_arc. oeff_auto. Qed.
Global Hint Resolve oeff_bytes_from_vec oeff_shallow_clone_arc : oeff.
Lemma oeff_bytes_clone h s : oeff (bytes_clone h) s. Proof. unfold bytes_clone. oeff_auto. Qed.
Lemma oeff_bytes_drop_rep x s : oeff (bytes_drop_rep x) s. Proof. unfold bytes_drop_rep. oeff_auto. Qed.
Lemma oeff_to_vec bs s : oeff (to_vec bs) s. Proof. unfold to_vec. oeff_auto. Qed.
Lemma oeff_bytes_contents x s : oeff (bytes_contents x) s. Proof. unfold bytes_contents. oeff_auto. Qed.
Lemma oeff_adv_unchecked c x s : oeff (adv_unchecked c x) s. Proof. unfold adv_unchecked. oeff_auto. Qed.
Global Hint Resolve oeff_bytes_clone oeff_bytes_drop_rep oeff_to_vec oeff_bytes_contents oeff_adv_unchecked : oeff.
Lemma oeff_shared_to_vec k o l s : oeff (shared_to_vec k o l) s. Proof. unfold shared_to_vec. oeff_auto. Qed.
Lemma oeff_shared_to_mut k o l s : oeff (shared_to_mut k o l) s. Proof. unfold shared_to_mut, from_vec. oeff_auto. Qed.
Global Hint Resolve oeff_shared_to_vec oeff_shared_to_mut : oeff.
Lemma oeff_bytes_into_vec_rep x s : oeff (bytes_into_vec_rep x) s. Proof. unfold bytes_into_vec_rep. oeff_auto. Qed.
Lemma oeff_bytes_into_mut_rep x s : oeff (bytes_into_mut_rep x) s. Proof. unfold bytes_into_mut_rep, from_vec. oeff_auto. Qed.
Lemma oeff_bytes_is_unique_rep x s : oeff (bytes_is_unique_rep x) s. Proof. unfold bytes_is_unique_rep. oeff_auto. Qed.
Lemma oeff_promote rc x s : oeff (promote rc x) s. Proof. unfold promote. oeff_auto. Qed.
Global Hint Resolve oeff_bytes_into_vec_rep oeff_bytes_into_mut_rep oeff_bytes_is_unique_rep oeff_promote : oeff.
Lemma oeff_m_shallow_clone x s : oeff (m_shallow_clone x) s. Proof. unfold m_shallow_clone. oeff_auto. Qed.
Lemma oeff_m_drop_rep x s : oeff (m_drop_rep x) s. Proof. unfold m_drop_rep. oeff_auto. Qed.
Lemma oeff_m_freeze_rep x s : oeff (m_freeze_rep x) s. Proof. unfold m_freeze_rep. oeff_auto. Qed.
Lemma oeff_m_into_vec_rep x s : oeff (m_into_vec_rep x) s. Proof. unfold m_into_vec_rep. oeff_auto. Qed.
Lemma oeff_reserve_inner orc n al x s : oeff (reserve_inner orc n al x) s. Proof. unfold reserve_inner. oeff_auto. Qed.
Global Hint Resolve oeff_m_shallow_clone oeff_m_drop_rep oeff_m_freeze_rep oeff_m_into_vec_rep oeff_reserve_inner : oeff.
Lemma oeff_m_reserve orc n x s : oeff (m_reserve orc n x) s. Proof. unfold m_reserve. oeff_auto. Qed.
Lemma oeff_m_try_reclaim orc n x s : oeff (m_try_reclaim orc n x) s. Proof. unfold m_try_reclaim. oeff_auto. Qed.
Global Hint Resolve oeff_m_reserve oeff_m_try_reclaim : oeff.
Lemma oeff_m_extend orc bs x s : oeff (m_extend orc bs x) s. Proof. unfold m_extend. oeff_auto. Qed.
Global Hint Resolve oeff_m_extend : oeff.
Lemma oeff_bytes_slice h b e s : oeff (bytes_slice h b e) s. Proof. unfold bytes_slice. oeff_auto. Qed.
Lemma oeff_bytes_split_off_core h a s : oeff (bytes_split_off_core h a) s. Proof. unfold bytes_split_off_core, empty_with_ptr. oeff_auto. Qed.
Global Hint Resolve oeff_bytes_slice oeff_bytes_split_off_core : oeff.
Lemma oeff_bytes_split_off h a s : oeff (bytes_split_off h a) s. Proof. unfold bytes_split_off. oeff_auto. Qed.
Lemma oeff_bytes_split_to h a s : oeff (bytes_split_to h a) s. Proof. unfold bytes_split_to, empty_with_ptr. oeff_auto. Qed.
Lemma oeff_bytes_truncate h l s : oeff (bytes_truncate h l) s. Proof. unfold bytes_truncate. oeff_auto. Qed.
Lemma oeff_m_split_off h a s : oeff (m_split_off h a) s. Proof. unfold m_split_off. oeff_auto. Qed.
Lemma oeff_m_split_to h a s : oeff (m_split_to h a) s. Proof. unfold m_split_to. oeff_auto. Qed.
Global Hint Resolve oeff_bytes_split_off oeff_bytes_split_to oeff_bytes_truncate oeff_m_split_off oeff_m_split_to : oeff.
Lemma oeff_extend_loop orc h d : forall (acc : M unit) s, oeff acc s ->
  oeff (fold_left (fun (acc : M unit) b => acc;; let! y := get_h h in let! y1 := m_extend orc [b] y in put_h h y1) d acc) s.
Proof. induction d as [|b d IH]; intros acc s Hacc; simpl; [done|]. apply IH. apply oeff_bind; [done|]. intros. oeff_auto. Qed.
Lemma from_owner_core s d k nr np (m1 : M unit) (rest : M retv) : owners s !! next_o s = None -> sts s !! k = None -> OInv s ->
  (forall S e0, exists e1, m1 S e0 = OK tt S e1) ->
  (forall s2, OInv s2 -> forall e2, match rest s2 e2 with OK _ s3 _ | PANIC s3 _ => OInv s3 | UB _ => True end) ->
  forall e, match
    (mput {| sts := <[k := {| s_size := lenN d; s_data := d; s_live := true; s_odd := odd_mode s; s_cls := SOwnerMem; s_ctrl := COwned 1 (next_o s) |}]> (sts s); hs := hs s;
             owners := <[next_o s := {| o_dropped := false; o_asref := 0; o_drops := 0; o_mem := k |}]> (owners s);
             next_real := nr; next_pseudo := np; next_h := next_h s; next_o := Pos.succ (next_o s); odd_mode := odd_mode s |};;
     m1;; emit EAllocCtrl;;
     let! s1 := mget in
     match owners s1 !! next_o s with
     | None => mub "owner vanished"
     | Some w => mput (set_owners (<[next_o s := {| o_dropped := o_dropped w; o_asref := o_asref w + 1; o_drops := o_drops w; o_mem := o_mem w |}]>) s1);; emit (EOwnerAsRef (next_o s))
     end;; rest) s e with OK _ s3 _ | PANIC s3 _ => OInv s3 | UB _ => True end.
Proof.
  intros Hfo Hfk (D1 & D2 & D3) Hm1 Hrest e. set (o := next_o s) in *.
  unfold mbind at 1. unfold mput at 1. unfold mbind at 1. match goal with |- context [m1 ?S ?e0] => destruct (Hm1 S e0) as [e1 ->] end.
  unfold mbind, emit, mget, mput, set_owners, mret. cbn [owners]. rewrite lookup_insert. cbn [o_dropped o_asref o_drops o_mem sts hs next_real next_pseudo next_h next_o odd_mode].
  apply Hrest. set (w1 := {| o_dropped := false; o_asref := 0 + 1; o_drops := 0; o_mem := k |}).
  split; [|split]; cbn [owners sts]; rewrite insert_insert.
  - intros o1 w. destruct (decide (o1 = o)) as [->|?]; [rewrite lookup_insert; by intros [= <-]|rewrite lookup_insert_ne by done; apply D1].
  - assert (forall o1 w, owners s !! o1 = Some w -> exists w', <[o := w1]> (owners s) !! o1 = Some w' /\ o_mem w' = o_mem w /\ (o_dropped w = true -> o_dropped w' = true)) as Hmono.
    { intros o1 w H1. destruct (decide (o1 = o)) as [->|?]; [congruence|]. rewrite lookup_insert_ne by done. eauto. }
    intros k2 st2. destruct (decide (k2 = k)) as [->|?]; [|rewrite lookup_insert_ne by done; intros H2; eapply sto_ok_mono; [exact Hmono|by apply D2]].
    rewrite lookup_insert. intros [= <-]. split; [done|]. intros rc o1 [= <- <-]. split; [done|]. exists w1. by rewrite lookup_insert.
  - destruct D3 as [A3 B3]. split.
    + intros o1 w. destruct (decide (o1 = o)) as [->|?]; [rewrite lookup_insert; intros [= <-]; cbn; rewrite lookup_insert; by eexists|]. rewrite lookup_insert_ne by done. intros Ho1.
      destruct (A3 _ _ Ho1) as [st Hst]. destruct (decide (o_mem w = k)) as [Heq|?]; [rewrite Heq, Hfk in Hst; discriminate|]. rewrite lookup_insert_ne by done. by eexists.
    + intros o1 o2 w2 w3. destruct (decide (o1 = o)) as [->|?], (decide (o2 = o)) as [->|?]; try done; rewrite ?lookup_insert, ?lookup_insert_ne by done.
      * intros [= <-] H2 Hm. cbn in Hm. destruct (A3 _ _ H2) as [st Hst]. congruence.
      * intros H1 [= <-] Hm. cbn in Hm. destruct (A3 _ _ H1) as [st Hst]. congruence.
      * apply B3.
Qed.
Lemma oeff_from_owner orc d panics s : sfresh s -> oeff (hstep orc (OBFromOwner d panics)) s.
Proof.
  intros Fs. destruct Fs as (F1 & F2 & F3 & _). assert (owners s !! next_o s = None) as Hfo.
  { destruct (owners s !! next_o s) eqn:E; [|done]. assert (next_o s < next_o s)%positive by (apply F3; eauto). lia. }
  cbn [hstep]. cbv zeta. intros D e. unfold mbind at 1, mget.
  assert (forall k s2, OInv s2 -> forall e2, match (if panics then release k;; mpanic else let! r := new_h (HB (Some k) 0 (lenN d) VOwned false) in mret (RH r)) s2 e2 with OK _ s3 _ | PANIC s3 _ => OInv s3 | UB _ => True end) as Hrest.
  { intros k s2 HI e2. assert (oeff (if panics then release k;; mpanic else let! r := new_h (HB (Some k) 0 (lenN d) VOwned false) in mret (RH r)) s2) as Ho by (destruct panics; oeff_auto). by apply Ho. }
  destruct (lenN d =? 0) eqn:E0.
  - assert (sts s !! xI (next_pseudo s) = None) as Hfk. { destruct (sts s !! xI (next_pseudo s)) eqn:E; [|done]. assert (next_pseudo s < next_pseudo s)%positive by (apply F2; eauto). lia. }
    apply (from_owner_core s d (xI (next_pseudo s)) _ _ (mret tt) _ Hfo Hfk D); [intros; by eexists|apply Hrest].
  - assert (sts s !! xO (next_real s) = None) as Hfk. { destruct (sts s !! xO (next_real s)) eqn:E; [|done]. assert (next_real s < next_real s)%positive by (apply F1; eauto). lia. }
    apply (from_owner_core s d (xO (next_real s)) _ _ (emit _) _ Hfo Hfk D); [intros; by eexists|apply Hrest].
Qed.
Lemma oinv_hstep orc o s : sfresh s -> oeff (hstep orc o) s.
Proof.
  intros Fs. destruct o; cbn [hstep]; try (by oeff_auto).
  - (* from_static *)
    apply oeff_mget. apply oeff_bind; [|intros; oeff_auto]. destruct (lenN d =? 0); [apply oeff_ret|].
    intros (D1 & D2 & D3) e. simpl. split; [done|]. split; [|by apply O3_insert]. intros k st. simpl. destruct (decide (k = xO (next_real s))) as [->|?]; [rewrite lookup_insert; intros [= <-]; by split|]. rewrite lookup_insert_ne by done. apply D2.
  - (* from_owner *) by apply (oeff_from_owner orc).
  - (* extend from an iterator *)
    apply oeff_bind_keeps; [apply keeps_get_h|intros x]. apply oeff_bind; [oeff_auto|]. intros. apply oeff_bind; [oeff_auto|]. intros.
    apply oeff_bind; [apply oeff_extend_loop; apply oeff_ret|intros; oeff_auto].
Qed.
Lemma oinv0 odd : OInv (hst0 odd).
Proof. unfold OInv, hst0. cbn [owners sts]. split; [intros o w H; by apply lookup_empty_Some in H|]. split; [intros k st H; by apply lookup_empty_Some in H|]. split; intros *; intros H; by apply lookup_empty_Some in H. Qed.
Theorem reach_oinv orcs n s : reach orcs n s -> OInv s.
Proof.
  induction 1 as [odd|n s o r s' e Hr IH Hok Hrun|n s o s' e Hr IH Hok Hrun]; [apply oinv0| |].
  - pose proof (reach_wf _ _ _ Hr) as [L _]. pose proof (oinv_hstep (orcs n) o s (lwf_fresh _ _ L) IH []) as H. unfold run_op in Hrun. by rewrite Hrun in H.
  - pose proof (reach_wf _ _ _ Hr) as [L _]. pose proof (oinv_hstep (orcs n) o s (lwf_fresh _ _ L) IH []) as H. unfold run_op in Hrun. by rewrite Hrun in H.
Qed.
(* the owner protocol, per owner memory: there is exactly one owner for it; its as_ref ran exactly once; it has been dropped at most once, and
   it is still alive exactly as long as some handle holds the memory *)
Theorem owner_protocol orcs n s k st : reach orcs n s -> sts s !! k = Some st -> s_cls st = SOwnerMem ->
  exists o w, owners s !! o = Some w /\ o_mem w = k /\ (forall o' w', owners s !! o' = Some w' -> o_mem w' = k -> o' = o) /\
    o_asref w = 1 /\ o_drops w = (if o_dropped w then 1 else 0) /\ (o_dropped w = false <-> (1 <= refs (hs s) k)%nat).
Proof.
  intros Hr Hs Hcl. pose proof (reach_wf _ _ _ Hr) as [L _]. destruct (reach_oinv _ _ _ Hr) as (D1 & D2 & [A3 B3]).
  pose proof (lwf_st _ _ L _ _ Hs) as Hok. unfold st_ok in Hok. rewrite Hcl in Hok. destruct (s_live st) eqn:Hlv.
  - destruct Hok as (rc & o & Hc & -> & Hn & (w & Ho & Hd & Hm)). exists o, w. destruct (D1 _ _ Ho) as [Ha Hdr].
    split_and!; try done. intros o' w' Ho' Hm'. eapply B3; [exact Ho'|exact Ho|congruence].
  - destruct Hok as [Hc Hn]. destruct (D2 _ _ Hs) as [A _]. destruct (A Hcl Hlv) as (o & w & Ho & Hm & Hd). exists o, w. destruct (D1 _ _ Ho) as [Ha Hdr].
    split_and!; try done. { intros o' w' Ho' Hm'. eapply B3; [exact Ho'|exact Ho|congruence]. } rewrite Hd, Hn. split; [done|lia].
Qed.

(* Corollaries of the refinement M2 ⊑ M1 (RefineM1.v). *)
From stdpp Require Import gmap.
From Coq Require Import NArith Lia String.
From BV Require Import Base BaseLemmas BufMut Heap HeapLaws HeapPanic HeapWF HeapWFPrim HeapWFOps HeapWFMain HeapFrame SizeInv Spec RefineM1.
Local Open Scope N_scope.

(* operations whose M1 result does not consult the representation's uniqueness bit *)
Definition uniq_free (o : op) : bool := match o with OBIsUnique _ | OBTryIntoMut _ | OMTryReclaim _ _ => false | _ => true end.
Lemma sstep_uniq_free cap u u' o s : uniq_free o = true -> sstep cap u o s = sstep cap u' o s.
Proof. by destruct o. Qed.

Lemma sok_inj a r b r' : SOk a r = SOk b r' -> a = b /\ r = r'. Proof. by intros [= -> ->]. Qed.

(* C16 on M2: what a history observes (every handle's kind and bytes, and every return value) does not depend on the address parity of the
   allocator, nor on the capacities it delivers: two runs that agree on the observable state and on the reported capacity agree after the step *)
Theorem observables_independent_of_representation orcs1 n1 s1 orcs2 n2 s2 o r1 s1' e1 r2 s2' e2 :
  (forall i, oracle_sane (orcs1 i)) -> (forall i, oracle_sane (orcs2 i)) -> reach orcs1 n1 s1 -> reach orcs2 n2 s2 ->
  abs s1 = abs s2 -> cap_of s1 o = cap_of s2 o -> uniq_free o = true -> op_ok s1 o -> op_ok s2 o ->
  run_op (orcs1 n1) o s1 = OK r1 s1' e1 -> run_op (orcs2 n2) o s2 = OK r2 s2' e2 -> r1 = r2 /\ abs s1' = abs s2'.
Proof.
  intros Ho1 Ho2 R1 R2 Ha Hc Hu Hk1 Hk2 E1 E2.
  destruct (m2_refines_m1_reachable _ _ _ _ _ _ _ Ho1 R1 Hk1 E1) as [u1 H1]. destruct (m2_refines_m1_reachable _ _ _ _ _ _ _ Ho2 R2 Hk2 E2) as [u2 H2].
  rewrite Ha, Hc in H1. rewrite (sstep_uniq_free _ u1 u2 _ _ Hu) in H1. rewrite H1 in H2. apply sok_inj in H2 as [? ?]. done.
Qed.
(* ... and a call that returns in one run cannot be out of contract for the other *)

(* C04: reserve changes nothing observable; afterwards the spare capacity is what was asked for *)
Theorem reserve_keeps_observables orcs n s h a r s' e' : (forall i, oracle_sane (orcs i)) -> reach orcs n s -> op_ok s (OMReserve h a) ->
  run_op (orcs n) (OMReserve h a) s = OK r s' e' -> abs s' = abs s /\ r = RUnit.
Proof.
  intros Ho R Hk E. destruct (m2_refines_m1_reachable _ _ _ _ _ _ _ Ho R Hk E) as [u H]. cbn [sstep] in H. unfold with_b in H.
  destruct (vals (abs s) !! h) as [v|]; [|done]. destruct (sv_kind v); try done. destruct (_ || _); [|done]. apply sok_inj in H as [? ?]. done.
Qed.
Theorem try_reclaim_keeps_observables orcs n s h a r s' e' : (forall i, oracle_sane (orcs i)) -> reach orcs n s -> op_ok s (OMTryReclaim h a) ->
  run_op (orcs n) (OMTryReclaim h a) s = OK r s' e' -> abs s' = abs s.
Proof.
  intros Ho R Hk E. destruct (m2_refines_m1_reachable _ _ _ _ _ _ _ Ho R Hk E) as [u H]. cbn [sstep] in H. unfold with_b in H.
  destruct (vals (abs s) !! h) as [v|]; [|done]. destruct (sv_kind v); try done. apply sok_inj in H as [? ?]. done.
Qed.

(* ---- whole histories ---- *)
Inductive m2steps (orcs : nat -> oracle) : nat -> hst -> list op -> list retv -> hst -> Prop :=
| m2nil n s : m2steps orcs n s [] [] s
| m2cons n s o r s1 e ops rs s' : op_ok s o -> run_op (orcs n) o s = OK r s1 e -> m2steps orcs (S n) s1 ops rs s' -> m2steps orcs n s (o :: ops) (r :: rs) s'.
Inductive m1steps : sst -> list op -> list retv -> sst -> Prop :=
| m1nil t : m1steps t [] [] t
| m1cons t o cap uniq r t1 ops rs t' : sstep cap uniq o t = SOk t1 r -> m1steps t1 ops rs t' -> m1steps t (o :: ops) (r :: rs) t'.
(* every history of returning calls of the representation model, of any length, is a history of the reference model with the same return
   values, ending in the abstraction of the state reached *)
Theorem history_refinement orcs n s ops rs s' : (forall i, oracle_sane (orcs i)) -> reach orcs n s -> m2steps orcs n s ops rs s' -> m1steps (abs s) ops rs (abs s').
Proof.
  intros Ho R H. induction H as [n s|n s o r s1 e ops rs s' Hok E _ IH]; [constructor|].
  destruct (m2_refines_m1_reachable _ _ _ _ _ _ _ Ho R Hok E) as [u Hu]. econstructor; [exact Hu|]. apply IH. by eapply reach_ok.
Qed.
Corollary history_refinement_from_empty orcs odd ops rs s' : (forall i, oracle_sane (orcs i)) -> m2steps orcs 0 (hst0 odd) ops rs s' -> m1steps sst0 ops rs (abs s').
Proof. intros Ho H. rewrite <- (abs0 odd). eapply history_refinement; [done|constructor|done]. Qed.

(* Laws of M4, part 4: every typed getter whose body (as read from the source by T3) matches the meaning of
   its NAME returns the value of the next bytes of the logical sequence, whatever the tree and chunking. *)
From stdpp Require Import list.
From Coq Require Import NArith ZArith Lia ZifyN ZifyNat ZifyBool String.
From BV Require Import Base BaseLemmas Buf BufSpec BufLaws BufLaws2 Codec CodecLemmas Get.
Local Open Scope N_scope.
Arguments N.add : simpl never. Arguments N.sub : simpl never. Arguments N.min : simpl never. Arguments N.mul : simpl never.
Arguments N.ltb : simpl never. Arguments N.leb : simpl never. Arguments N.eqb : simpl never.

Definition is_var (d : gdesc) : bool := match g_kind d with GKVar => true | _ => false end.
Definition get_size (d : gdesc) (nbytes : N) : N := if is_var d then nbytes else g_size d.
(* the specification: decode-by-descriptor of the next bytes of `den b`, cursor advanced by exactly the size *)
Definition get_spec (d : gdesc) (nbytes : N) (b : buf) : res (tryres (Z * buf)) :=
  let size := get_size d nbytes in
  if is_var d && (8 <? nbytes) then Panic
  else if lenN (den b) <? size then (if g_try d then Ok (TErr size (lenN (den b))) else Panic)
  else Ok (TOk (dec (g_endian d) (g_signed d) (firstnN size (den b)), adv size b)).

Lemma bytes_ok_firstnN n l : bytes_ok l -> bytes_ok (firstnN n l).
Proof. intros H. rewrite firstnN_eq. by apply Forall_take. Qed.

Lemma get_body_spec d nbytes b : wf b -> bytes_ok (den b) -> (g_kind d = GK8 -> g_size d = 1) ->
  finish d (get_body d nbytes b) = get_spec d nbytes b.
Proof.
  intros Hwf Hok H8. unfold get_body, get_spec, get_size, is_var.
  pose proof (chunk_prefix b Hwf) as Hp. pose proof (prefix_lenN _ _ Hp) as Hlen.
  destruct (g_kind d) eqn:Ek; cbn [andb].
  - rewrite H8 by done. rewrite remaining_den by done. destruct (lenN (den b) <? 1) eqn:E.
    + unfold finish. by destruct (g_try d).
    + pose proof (chunk_nonempty b Hwf ltac:(lia)) as Hne.
      destruct (chunk b) as [|x c] eqn:Ec; [by compute in Hne|].
      rewrite advance_ok by (done || lia). cbn [bind].
      assert (firstnN 1 (den b) = [x]) as ->.
      { destruct Hp as [k ->]. rewrite firstnN_app_le by (rewrite lenN_cons; lia). rewrite firstnN_eq. done. }
      rewrite (dec_single BE (g_endian d)). unfold finish. by destruct (g_try d).
  - rewrite remaining_den by done. destruct (lenN (den b) <? g_size d) eqn:E.
    + unfold finish. by destruct (g_try d).
    + destruct (g_size d <=? lenN (chunk b)) eqn:E2.
      * rewrite advance_ok by (done || lia). cbn [bind]. rewrite (firstnN_prefix_mono _ _ _ Hp) by lia.
        unfold finish. by destruct (g_try d).
      * rewrite copy_to_slice_spec by done. unfold cts_spec. rewrite E. cbn [bind].
        unfold finish. by destruct (g_try d).
  - destruct (8 <? nbytes) eqn:E8; [unfold finish; by destruct (g_try d)|].
    rewrite try_copy_to_slice_d_spec by done. cbn [bind]. unfold tcs_spec.
    destruct (lenN (den b) <? nbytes) eqn:E; [unfold finish; by destruct (g_try d)|].
    assert (lenN (firstnN nbytes (den b)) = nbytes) as Hl by (rewrite lenN_firstnN; lia).
    assert (bytes_ok (firstnN nbytes (den b))) as Hb by by apply bytes_ok_firstnN.
    assert (forall u, u = uval (g_endian d) (firstnN nbytes (den b)) ->
            (if g_signed d then sign_extend_code u nbytes else Z.of_N u) = dec (g_endian d) (g_signed d) (firstnN nbytes (den b))) as Hv.
    { intros u ->. unfold dec. destruct (g_signed d); [|done]. rewrite Hl.
      apply sign_extend_ok; [lia|]. rewrite <- pow256. rewrite <- Hl at 2. by apply uval_bound. }
    rewrite Hv; [unfold finish; by destruct (g_try d)|].
    destruct (g_endian d); cbn [uval]; [apply be_val_zeros|apply le_val_zeros].
Qed.

Section Tables.
  Variable getters : list (string * gdesc).
  Variable fwd : list (string * string).
  Hypothesis Hok : tables_ok getters fwd = true.

  Lemma assoc_In {A} k (l : list (string * A)) v : assoc k l = Some v -> In (k, v) l.
  Proof.
    induction l as [|[k' v'] r IH]; simpl; [done|]. destruct (String.eqb k k') eqn:E.
    - apply String.eqb_eq in E. intros H; inversion H; subst. by left.
    - intros H. right. by apply IH.
  Qed.
  Lemma table_entry name d : assoc name getters = Some d -> spec_of_getter name = Some d.
  Proof.
    intros H. apply assoc_In in H. unfold tables_ok in Hok. apply andb_true_iff in Hok as [H1 _].
    rewrite forallb_forall in H1. specialize (H1 _ H). unfold getter_entry_ok in H1. simpl in H1.
    destruct (spec_of_getter name) as [d'|]; [|done]. by rewrite (gdesc_eqb_eq _ _ H1).
  Qed.
  Lemma fwd_entry name t : assoc name fwd = Some t -> t = name.
  Proof.
    intros H. apply assoc_In in H. unfold tables_ok in Hok. apply andb_true_iff in Hok as [_ H2].
    rewrite forallb_forall in H2. specialize (H2 _ H). unfold fwd_entry_ok in H2. simpl in H2.
    by apply String.eqb_eq in H2.
  Qed.

  Theorem get_correct name d nbytes b : assoc name getters = Some d -> wf b -> bytes_ok (den b) ->
    get getters fwd name nbytes b = Some (get_spec d nbytes b).
  Proof.
    intros Hd. pose proof (table_entry _ _ Hd) as Hs.
    assert (g_kind d = GK8 -> g_size d = 1) as H8 by by apply (spec_of_getter_k8 name).
    induction b as [l|a IHa c IHc|n x IH|x IH]; intros Hwf Hb; cbn [get]; rewrite ?Hd; cbn [option_map]; try (by rewrite get_body_spec).
    destruct (assoc name fwd) as [t|] eqn:Ef.
    - apply fwd_entry in Ef. subst t. rewrite IH by done. cbn [option_map]. f_equal.
      unfold rewrap, get_spec. simpl. destruct (_ && _); [done|]. destruct (_ <? _); [by destruct (g_try d)|]. done.
    - by rewrite get_body_spec.
  Qed.
End Tables.

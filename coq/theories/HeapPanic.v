(* Effect analysis of M2 for C13: an operation that panics has not changed anything — no handle, no storage, no event —
   for every state and every argument.  (The only exception is from_owner with an owner whose as_ref panics: there the
   owner is consumed, by contract.)  Proof: a small effect system over the monadic programs. *)
From stdpp Require Import gmap.
From Coq Require Import NArith Lia ZifyN ZifyBool String.
From BV Require Import Base BaseLemmas BufMut Heap HeapLaws.
Local Open Scope N_scope.
Arguments N.add : simpl never. Arguments N.sub : simpl never. Arguments N.ltb : simpl never. Arguments N.leb : simpl never. Arguments N.eqb : simpl never.

(* reads only: whatever the outcome, state and log are unchanged *)
Definition ro {A} (m : M A) : Prop := forall s e, match m s e with OK _ s' e' | PANIC s' e' => s' = s /\ e' = e | UB _ => True end.
(* never panics (may be UB, which the no-UB theorems exclude separately) *)
Definition np {A} (m : M A) : Prop := forall s e, match m s e with PANIC _ _ => False | _ => True end.
(* clean panic: if it panics, nothing has changed *)
Definition cp {A} (m : M A) : Prop := forall s e, match m s e with PANIC s' e' => s' = s /\ e' = e | _ => True end.

Lemma ro_cp {A} (m : M A) : ro m -> cp m. Proof. intros H s e. specialize (H s e). by destruct (m s e). Qed.
Lemma np_cp {A} (m : M A) : np m -> cp m. Proof. intros H s e. specialize (H s e). by destruct (m s e). Qed.
Lemma ro_ret {A} (a : A) : ro (mret a). Proof. done. Qed.
Lemma np_ret {A} (a : A) : np (mret a). Proof. done. Qed.
Lemma ro_panic {A} : ro (@mpanic A). Proof. done. Qed.
Lemma ro_ub {A} w : ro (@mub A w). Proof. done. Qed.
Lemma np_ub {A} w : np (@mub A w). Proof. done. Qed.
Lemma ro_bind {A B} (m : M A) (f : A -> M B) : ro m -> (forall a, ro (f a)) -> ro (mbind m f).
Proof. intros Hm Hf s e. unfold mbind. specialize (Hm s e). destruct (m s e) as [a s1 e1|s1 e1|]; try done. destruct Hm as [-> ->]. apply Hf. Qed.
Lemma np_bind {A B} (m : M A) (f : A -> M B) : np m -> (forall a, np (f a)) -> np (mbind m f).
Proof. intros Hm Hf s e. unfold mbind. specialize (Hm s e). destruct (m s e) as [a s1 e1|s1 e1|]; try done. apply Hf. Qed.
Lemma cp_bind_ro {A B} (m : M A) (f : A -> M B) : ro m -> (forall a, cp (f a)) -> cp (mbind m f).
Proof. intros Hm Hf s e. unfold mbind. specialize (Hm s e). destruct (m s e) as [a s1 e1|s1 e1|]; try done. destruct Hm as [-> ->]. apply Hf. Qed.
Lemma cp_bind_np {A B} (m : M A) (f : A -> M B) : cp m -> (forall a, np (f a)) -> cp (mbind m f).
Proof. intros Hm Hf s e. unfold mbind. specialize (Hm s e). destruct (m s e) as [a s1 e1|s1 e1|]; try done. specialize (Hf a s1 e1). by destruct (f a s1 e1). Qed.

Lemma ro_get : ro mget. Proof. done. Qed.
Lemma np_get : np mget. Proof. done. Qed.
Lemma np_put s0 : np (mput s0). Proof. done. Qed.
Lemma np_emit x : np (emit x). Proof. done. Qed.
Lemma ro_assert b : ro (massert b). Proof. by destruct b. Qed.
Lemma ro_check b w : ro (mcheck b w). Proof. by destruct b. Qed.
Lemma np_check b w : np (mcheck b w). Proof. by destruct b. Qed.
Lemma ro_get_st k : ro (get_st k). Proof. intros s e. unfold get_st. by destruct (sts s !! k). Qed.
Lemma np_get_st k : np (get_st k). Proof. intros s e. unfold get_st. by destruct (sts s !! k). Qed.
Lemma np_put_st k x : np (put_st k x). Proof. done. Qed.
Lemma ro_get_h h : ro (get_h h). Proof. intros s e. unfold get_h. by destruct (hs s !! h). Qed.
Lemma np_get_h h : np (get_h h). Proof. intros s e. unfold get_h. by destruct (hs s !! h). Qed.
Lemma np_put_h h x : np (put_h h x). Proof. done. Qed.
Lemma np_del_h h : np (del_h h). Proof. done. Qed.
Lemma np_new_h x : np (new_h x). Proof. done. Qed.
Global Hint Resolve ro_ret np_ret ro_panic ro_ub np_ub ro_get np_get np_put np_emit ro_assert ro_check np_check ro_get_st np_get_st np_put_st ro_get_h np_get_h np_put_h np_del_h np_new_h : eff.

Ltac eff_destruct :=
  match goal with
  | |- _ (if ?c then _ else _) => destruct c
  | |- _ (match ?x with _ => _ end) => destruct x
  | |- _ (let '(_, _) := ?p in _) => destruct p
  end.
Ltac ro_auto := repeat first [apply ro_bind; [|intros] | eff_destruct | solve [eauto with eff]].
Ltac np_auto := repeat first [apply np_bind; [|intros] | eff_destruct | solve [eauto with eff]].
(* cp: first the read-only prefix, then either a clean primitive followed by non-panicking code, or non-panicking code *)
Ltac cp_auto :=
  repeat first [ solve [apply ro_cp; ro_auto] | solve [apply np_cp; np_auto] | solve [eauto with eff]
               | apply cp_bind_ro; [solve [ro_auto]|intros]
               | apply cp_bind_np; [|intros; solve [np_auto]]
               | eff_destruct ].

Lemma np_upd_st k f : np (upd_st k f). Proof. unfold upd_st. np_auto. Qed.
Lemma ro_mread k o l : ro (mread k o l). Proof. unfold mread. ro_auto. Qed.
Lemma np_mread k o l : np (mread k o l). Proof. unfold mread. np_auto. Qed.
Lemma np_mwrite k o bs : np (mwrite k o bs). Proof. unfold mwrite. np_auto. Qed.
Lemma np_free_buf k sz : np (free_buf k sz). Proof. unfold free_buf. np_auto. Qed.
Global Hint Resolve np_upd_st ro_mread np_mread np_mwrite np_free_buf : eff.
Lemma np_drop_vec k c : np (drop_vec k c). Proof. unfold drop_vec. np_auto. Qed.
Lemma np_inc_rc k : np (inc_rc k). Proof. unfold inc_rc. np_auto. Qed.
Lemma ro_get_rc k : ro (get_rc k). Proof. unfold get_rc. ro_auto. Qed.
Lemma np_get_rc k : np (get_rc k). Proof. unfold get_rc. np_auto. Qed.
Global Hint Resolve np_drop_vec np_inc_rc ro_get_rc np_get_rc : eff.
Lemma np_release k : np (release k). Proof. unfold release. np_auto. all: destruct (owners _ !! _); np_auto. Qed.
Lemma np_copy_to_front k o l : np (copy_to_front k o l). Proof. unfold copy_to_front. np_auto. Qed.
Lemma ro_b_parts x : ro (b_parts x). Proof. unfold b_parts. ro_auto. Qed.
Lemma np_b_parts x : np (b_parts x). Proof. unfold b_parts. np_auto. Qed.
Lemma ro_m_parts x : ro (m_parts x). Proof. unfold m_parts. ro_auto. Qed.
Lemma np_m_parts x : np (m_parts x). Proof. unfold m_parts. np_auto. Qed.
Global Hint Resolve np_release np_copy_to_front ro_b_parts np_b_parts ro_m_parts np_m_parts : eff.
Lemma np_bytes_from_vec k l c : np (bytes_from_vec k l c). Proof. unfold bytes_from_vec. np_auto. Qed.
Lemma np_shallow_clone_arc k o l : np (shallow_clone_arc k o l). Proof. unfold shallow_clone_arc. np_auto. Qed.
Global Hint Resolve np_bytes_from_vec np_shallow_clone_arc : eff.
Lemma np_bytes_clone h : np (bytes_clone h). Proof. unfold bytes_clone. np_auto. Qed.
Lemma np_bytes_drop_rep x : np (bytes_drop_rep x). Proof. unfold bytes_drop_rep. np_auto. Qed.
Lemma np_adv_unchecked c x : np (adv_unchecked c x). Proof. unfold adv_unchecked. np_auto. Qed.
Lemma np_promote rc x : np (promote rc x). Proof. unfold promote. np_auto. Qed.
Lemma ro_bytes_is_unique_rep x : ro (bytes_is_unique_rep x). Proof. unfold bytes_is_unique_rep. ro_auto. Qed.
Lemma np_bytes_is_unique_rep x : np (bytes_is_unique_rep x). Proof. unfold bytes_is_unique_rep. np_auto. Qed.
Lemma ro_bytes_contents x : ro (bytes_contents x). Proof. unfold bytes_contents. ro_auto. Qed.
Global Hint Resolve np_bytes_clone np_bytes_drop_rep np_adv_unchecked np_promote ro_bytes_is_unique_rep np_bytes_is_unique_rep ro_bytes_contents : eff.
Lemma np_m_shallow_clone x : np (m_shallow_clone x). Proof. unfold m_shallow_clone. np_auto. Qed.
Lemma np_m_drop_rep x : np (m_drop_rep x). Proof. unfold m_drop_rep. np_auto. Qed.
Global Hint Resolve np_m_shallow_clone np_m_drop_rep : eff.

(* allocation: the capacity-overflow panic happens before anything is touched *)
Lemma cp_alloc_buf sz init : cp (alloc_buf sz init). Proof. unfold alloc_buf. cp_auto. Qed.
Global Hint Resolve cp_alloc_buf : eff.
Lemma cp_to_vec bs : cp (to_vec bs). Proof. unfold to_vec. cp_auto. Qed.
Lemma cp_realloc_buf orc k oc keep need : cp (realloc_buf orc k oc keep need). Proof. unfold realloc_buf. cp_auto. Qed.
Global Hint Resolve cp_to_vec cp_realloc_buf : eff.
Lemma cp_reserve_inner orc n al x : cp (reserve_inner orc n al x). Proof. unfold reserve_inner. cp_auto. Qed.
Global Hint Resolve cp_reserve_inner : eff.
Lemma cp_m_reserve orc n x : cp (m_reserve orc n x). Proof. unfold m_reserve. cp_auto. Qed.
Lemma cp_m_try_reclaim orc n x : cp (m_try_reclaim orc n x). Proof. unfold m_try_reclaim. cp_auto. Qed.
Global Hint Resolve cp_m_reserve cp_m_try_reclaim : eff.
Lemma cp_m_extend orc bs x : cp (m_extend orc bs x). Proof. unfold m_extend. cp_auto. Qed.
Global Hint Resolve cp_m_extend : eff.

Lemma cp_bytes_slice h b e : cp (bytes_slice h b e). Proof. unfold bytes_slice. cp_auto. Qed.
Lemma cp_bytes_split_off_core h a : cp (bytes_split_off_core h a). Proof. unfold bytes_split_off_core. cp_auto. Qed.
Global Hint Resolve cp_bytes_slice cp_bytes_split_off_core : eff.
Lemma cp_bytes_split_off h a : cp (bytes_split_off h a). Proof. unfold bytes_split_off. cp_auto. Qed.
Lemma cp_bytes_split_to h a : cp (bytes_split_to h a). Proof. unfold bytes_split_to. cp_auto. Qed.
Lemma cp_m_split_off h a : cp (m_split_off h a). Proof. unfold m_split_off. cp_auto. Qed.
Lemma cp_m_split_to h a : cp (m_split_to h a). Proof. unfold m_split_to. cp_auto. Qed.
Global Hint Resolve cp_bytes_split_off cp_bytes_split_to cp_m_split_off cp_m_split_to : eff.
(* truncate on a promotable handle: drop(self.split_off(len)) with len < self.len: the assertion inside cannot fire *)
Lemma cp_bytes_truncate h l : cp (bytes_truncate h l).
Proof.
  unfold bytes_truncate. apply cp_bind_ro; [ro_auto|intros x]. apply cp_bind_ro; [ro_auto|intros ((((k & ofs) & len) & vt) & arc)].
  destruct (l <? len) eqn:E; [|cp_auto]. destruct vt; try cp_auto.
  all: apply cp_bind_np; [apply cp_bytes_split_off_core|intros; np_auto].
Qed.
Global Hint Resolve cp_bytes_truncate : eff.
Lemma cp_shared_to_vec k o l : cp (shared_to_vec k o l). Proof. unfold shared_to_vec. cp_auto. Qed.
Lemma cp_shared_to_mut k o l : cp (shared_to_mut k o l). Proof. unfold shared_to_mut. cp_auto. Qed.
Global Hint Resolve cp_shared_to_vec cp_shared_to_mut : eff.
Lemma cp_bytes_into_vec_rep x : cp (bytes_into_vec_rep x). Proof. unfold bytes_into_vec_rep. cp_auto. Qed.
Lemma cp_bytes_into_mut_rep x : cp (bytes_into_mut_rep x). Proof. unfold bytes_into_mut_rep. cp_auto. Qed.
Lemma cp_m_into_vec_rep x : cp (m_into_vec_rep x). Proof. unfold m_into_vec_rep. cp_auto. Qed.
Global Hint Resolve cp_bytes_into_vec_rep cp_bytes_into_mut_rep cp_m_into_vec_rep : eff.

(* operations whose panic (if any) is clean by the effect system *)
Definition clean_panic_op (o : op) : bool :=
  match o with OBFromOwner _ true | OMExtendIter _ _ _ | OMFreeze _ => false | _ => true end.
Theorem panics_are_clean orc o : clean_panic_op o = true -> cp (hstep orc o).
Proof.
  destruct o; simpl; try discriminate; intros Hc; try (destruct panics; [discriminate|]); cp_auto.
Qed.

(* freeze: the `advance(off)` on the freshly built Bytes asserts off <= len + off, which always holds: no panic at all *)
Lemma np_m_freeze_rep x : np (m_freeze_rep x).
Proof.
  destruct x as [| k off len cap [o|] |]; [unfold m_freeze_rep; np_auto| |unfold m_freeze_rep; np_auto|unfold m_freeze_rep; np_auto].
  intros s e. unfold m_freeze_rep, bytes_from_vec, mbind.
  destruct (len + off =? cap + off) eqn:E1.
  - destruct (len + off =? 0) eqn:E2.
    + unfold mret, b_static_empty. replace (off <=? 0) with true by lia. done.
    + unfold get_st. destruct (sts s !! k) as [y|]; [|done]. unfold mret, massert. replace (off <=? len + off) with true by lia. done.
  - unfold upd_st, mbind, get_st. destruct (sts s !! k) as [y|]; [|done]. unfold put_st, emit, mret, massert.
    replace (off <=? len + off) with true by lia. done.
Qed.
Theorem freeze_never_panics orc h : np (hstep orc (OMFreeze h)).
Proof. simpl. apply np_bind; [apply np_get_h|intros x]. apply np_bind; [apply np_m_freeze_rep|intros]. np_auto. Qed.

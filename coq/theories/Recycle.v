(* M3: the reserve policy of BytesMut keeps the buffer bounded over ANY recycling history (any length).
   Abstract state of the recycling handle: V = capacity of the byte buffer it points into, off = front offset, len, cap (as in the
   struct), uniq = no other handle holds the buffer, vec = inline-Vec form, allocs = byte-buffer allocations so far.
   RecycleSim.v ties `reserve` below to the transliterated reserve_inner of M2 (Heap.v). *)
From Coq Require Import ZArith Lia List Bool.
Import ListNotations.
Local Open Scope Z_scope.
Ltac bz := repeat match goal with
  | H : (_ <=? _) = true |- _ => apply Z.leb_le in H
  | H : (_ <=? _) = false |- _ => apply Z.leb_gt in H
  | H : (_ && _) = true |- _ => apply andb_prop in H as [? ?]
  | H : (_ && _) = false |- _ => apply andb_false_iff in H as [?|?]
  end.

Record st := { V : Z; off : Z; len : Z; cap : Z; uniq : bool; vec : bool; allocs : Z }.

Inductive op :=
| Reserve (a : Z) (grow : Z)        (* grow: the capacity Vec::reserve / with_capacity delivers (oracle) *)
| Write (w : Z)                     (* append w bytes into the spare capacity *)
| Consume (c : Z) (keep_part : bool)(* split_to / advance / split: c bytes leave the front; a part may stay alive *)
| Truncate (l : Z)
| PartsDropped.                     (* the last outstanding part is dropped *)

Section Policy.
  Variable orig : Z.                (* original_capacity_from_repr(..) of the first allocation; never changes *)

  (* oracle_ok for a growth request: std's amortised growth delivers between `need` and max(2*old, need, 8) *)
  Definition grow_ok (old need g : Z) : Prop := need <= g <= Z.max (Z.max (2 * old) need) 8.

  (* reserve_inner, transliterated (after the fix of D1 the first ARC test cannot overflow) *)
  Definition reserve (s : st) (a g : Z) : st :=
    if a <=? cap s - len s then s else
    if vec s then
      if (a <=? cap s - len s + off s) && (len s <=? off s)
      then {| V := V s; off := 0; len := len s; cap := cap s + off s; uniq := uniq s; vec := true; allocs := allocs s |}
      else {| V := g; off := off s; len := len s; cap := g - off s; uniq := uniq s; vec := true; allocs := allocs s + 1 |}
    else
      let new_cap := len s + a in
      if uniq s then
        if new_cap + off s <=? V s then {| V := V s; off := off s; len := len s; cap := new_cap; uniq := true; vec := false; allocs := allocs s |}
        else if (new_cap <=? V s) && (len s <=? off s)
        then {| V := V s; off := 0; len := len s; cap := V s; uniq := true; vec := false; allocs := allocs s |}
        else {| V := g; off := off s; len := len s; cap := g - off s; uniq := true; vec := false; allocs := allocs s + 1 |}
      else {| V := g; off := 0; len := len s; cap := g; uniq := true; vec := true; allocs := allocs s + 1 |}.

  (* what the oracle must satisfy for this request *)
  Definition reserve_grow_ok (s : st) (a g : Z) : Prop :=
    if a <=? cap s - len s then True else
    if vec s then grow_ok (V s) (off s + len s + a) g
    else if uniq s then grow_ok (V s) (Z.max (2 * V s) (len s + a + off s)) g
    else g = Z.max (len s + a) orig.

  Definition step (s : st) (o : op) : st :=
    match o with
    | Reserve a g => reserve s a g
    | Write w => if w <=? cap s - len s then {| V := V s; off := off s; len := len s + w; cap := cap s; uniq := uniq s; vec := vec s; allocs := allocs s |} else s
    | Consume c keep =>
        if (0 <=? c) && (c <=? len s)
        then {| V := V s; off := off s + c; len := len s - c; cap := cap s - c;
                uniq := if keep then false else uniq s; vec := if keep then false else vec s; allocs := allocs s |}
        else s
    | Truncate l => if (0 <=? l) && (l <=? len s) then {| V := V s; off := off s; len := l; cap := cap s; uniq := uniq s; vec := vec s; allocs := allocs s |} else s
    | PartsDropped => {| V := V s; off := off s; len := len s; cap := cap s; uniq := true; vec := vec s; allocs := allocs s |}
    end.

  Variable B : Z.                   (* bound on len + additional at every reserve *)
  Variable C0 : Z.                  (* initial capacity *)
  Hypothesis HB : 0 <= B.  Hypothesis HC0 : 0 <= C0.  Hypothesis Horig : 0 <= orig <= C0.

  Definition op_ok (s : st) (o : op) : Prop :=
    match o with
    | Reserve a g => 0 <= a /\ len s + a <= B /\ reserve_grow_ok s a g
    | Write w => 0 <= w /\ len s + w <= B
    | _ => True
    end.

  Definition bound : Z := Z.max C0 (4 * B + 8).
  Definition Inv (s : st) : Prop :=
    0 <= off s /\ 0 <= len s <= cap s /\ off s + cap s <= V s /\ V s <= bound /\ len s <= B /\ (vec s = true -> off s + cap s = V s).

  Lemma reserve_inv s a g : Inv s -> 0 <= a -> len s + a <= B -> reserve_grow_ok s a g -> Inv (reserve s a g).
  Proof.
    unfold Inv, reserve, reserve_grow_ok, grow_ok, bound.
    intros (Ho & Hl & Hc & Hv & Hlb & Hvec) Ha Hab Hg.
    destruct (a <=? cap s - len s) eqn:E1; [tauto|].
    destruct (vec s) eqn:Ev.
    - specialize (Hvec eq_refl).
      destruct ((a <=? cap s - len s + off s) && (len s <=? off s)) eqn:E2; cbn [V off len cap uniq vec allocs]; bz; lia.
    - destruct (uniq s) eqn:Eu.
      + destruct (len s + a + off s <=? V s) eqn:E2; cbn [V off len cap uniq vec allocs]; [bz; lia|].
        destruct ((len s + a <=? V s) && (len s <=? off s)) eqn:E3; cbn [V off len cap uniq vec allocs]; bz; lia.
      + cbn [V off len cap uniq vec allocs]. bz. lia.
  Qed.

  Lemma step_inv s o : Inv s -> op_ok s o -> Inv (step s o).
  Proof.
    intros HI Hok. destruct o as [a g|w|c keep|l|]; cbn [step op_ok] in *.
    - destruct Hok as (? & ? & ?). apply reserve_inv; assumption.
    - unfold Inv in *. destruct Hok as [Hw Hwb]. destruct HI as (? & ? & ? & ? & ? & Hvec). destruct (w <=? cap s - len s) eqn:E; cbn [V off len cap uniq vec allocs]; [bz|]; repeat split; try lia; assumption.
    - unfold Inv in *. destruct ((0 <=? c) && (c <=? len s)) eqn:E; cbn [V off len cap uniq vec allocs]; [|tauto].
      bz. destruct HI as (? & ? & ? & ? & ? & Hvec). repeat split; try lia. destruct keep; [discriminate|]. intros Hv. specialize (Hvec Hv). lia.
    - unfold Inv in *. destruct HI as (? & ? & ? & ? & ? & Hvec). destruct ((0 <=? l) && (l <=? len s)) eqn:E; cbn [V off len cap uniq vec allocs]; [bz|]; repeat split; try lia; assumption.
    - unfold Inv in *. cbn [V off len cap uniq vec allocs]. tauto.
  Qed.

  (* every reachable state of every history, of any length *)
  Fixpoint run (s : st) (ops : list op) : st := match ops with [] => s | o :: r => run (step s o) r end.
  Fixpoint ops_ok (s : st) (ops : list op) : Prop := match ops with [] => True | o :: r => op_ok s o /\ ops_ok (step s o) r end.
  Definition init : st := {| V := C0; off := 0; len := 0; cap := C0; uniq := true; vec := true; allocs := 0 |}.
  Lemma init_inv : Inv init.
  Proof. unfold Inv, init, bound; cbn [V off len cap uniq vec allocs]. repeat split; try lia. Qed.

  Theorem bounded_buffer ops : ops_ok init ops -> V (run init ops) <= bound.
  Proof.
    assert (H : forall s, Inv s -> ops_ok s ops -> Inv (run s ops)).
    { induction ops as [|o r IH]; intros s HI Hok; cbn [run ops_ok] in *; [assumption|].
      destruct Hok as [Ho Hr]. apply IH; [apply step_inv; assumption|assumption]. }
    intros Hok. apply (H init init_inv Hok).
  Qed.

  (* allocation count when every part is dropped before the next refill (k = 0): each growth at least doubles V *)
  Definition op_ok0 (s : st) (o : op) : Prop :=
    op_ok s o /\ match o with Reserve a g => (vec s = true \/ uniq s = true) /\ (vec s = true -> a <= cap s - len s \/ 2 * V s <= g) | _ => True end.
  Fixpoint ops_ok0 (s : st) (ops : list op) : Prop := match ops with [] => True | o :: r => op_ok0 s o /\ ops_ok0 (step s o) r end.
  Definition J (s : st) : Prop := 0 <= allocs s /\ (1 <= allocs s -> 2 ^ (allocs s - 1) <= V s).

  Lemma step_J s o : Inv s -> J s -> op_ok0 s o -> J (step s o).
  Proof.
    intros HI [Ha HJ] [Hok H0]. destruct o as [a g|w|c keep|l|]; cbn [step] in *.
    - destruct Hok as (Ha0 & Hab & Hg). destruct H0 as [Hvu Hdbl]. unfold Inv in HI. destruct HI as (Ho & Hl & Hc & Hv & Hlb & Hvec).
      unfold reserve, reserve_grow_ok, grow_ok, J in *.
      destruct (a <=? cap s - len s) eqn:E1; [split; assumption|].
      assert (Hpow : forall n, 1 <= n -> 2 ^ n = 2 * 2 ^ (n - 1)) by (intros n Hn; rewrite <- Z.pow_succ_r by lia; f_equal; lia).
      assert (Hgrow : forall g', 2 * V s <= g' -> 1 <= g' -> 2 ^ (allocs s + 1 - 1) <= g').
      { intros g' H2 H1. replace (allocs s + 1 - 1) with (allocs s) by lia.
        destruct (Z.eq_dec (allocs s) 0) as [->|Hne]; [cbn; lia|]. rewrite Hpow by lia. specialize (HJ ltac:(lia)). lia. }
      destruct (vec s) eqn:Ev.
      + destruct ((a <=? cap s - len s + off s) && (len s <=? off s)) eqn:E2; cbn [V off len cap uniq vec allocs]; [split; assumption|].
        split; [lia|]. intros _. bz; (apply Hgrow; [destruct (Hdbl eq_refl); lia|lia]).
      + destruct Hvu as [?|Hu]; [discriminate|]. rewrite Hu in *.
        destruct (len s + a + off s <=? V s) eqn:E2; cbn [V off len cap uniq vec allocs]; [split; assumption|].
        destruct ((len s + a <=? V s) && (len s <=? off s)) eqn:E3; cbn [V off len cap uniq vec allocs]; [split; assumption|].
        split; [lia|]. intros _. bz; (apply Hgrow; lia).
    - unfold J. destruct (w <=? cap s - len s); cbn [V off len cap uniq vec allocs]; split; assumption.
    - unfold J. destruct ((0 <=? c) && (c <=? len s)); cbn [V off len cap uniq vec allocs]; split; assumption.
    - unfold J. destruct ((0 <=? l) && (l <=? len s)); cbn [V off len cap uniq vec allocs]; split; assumption.
    - unfold J. cbn [V off len cap uniq vec allocs]. split; assumption.
  Qed.

  Theorem bounded_allocs ops : ops_ok0 init ops ->
    let s := run init ops in allocs s = 0 \/ 2 ^ (allocs s - 1) <= bound.
  Proof.
    assert (H : forall s, Inv s -> J s -> ops_ok0 s ops -> Inv (run s ops) /\ J (run s ops)).
    { induction ops as [|o r IH]; intros s HI HJ Hok; cbn [run ops_ok0] in *; [split; assumption|].
      destruct Hok as [Ho Hr]. apply IH; [apply step_inv; [assumption|apply Ho]|apply step_J; assumption|assumption]. }
    intros Hok s. destruct (H init init_inv) as [HI [Ha HJ]]; [unfold J, init; cbn [allocs V]; split; lia|assumption|].
    fold s in HI, Ha, HJ. destruct (Z.eq_dec (allocs s) 0); [left; assumption|right].
    unfold Inv in HI. specialize (HJ ltac:(lia)). lia.
  Qed.
End Policy.



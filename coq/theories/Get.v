(* M4, typed reads: the bodies of get_X / try_get_X as the macros of buf_impl.rs expand, evaluated on a
   node of the adapter tree; forwarding through &mut B / Box<B> by the table T3 reads off
   deref_forward_buf!.  Definitions only. *)
From BV Require Import Base Buf Codec.
From Coq Require Import String.
Local Open Scope N_scope.

(* body of a getter running on node b (self = b), per descriptor *)
Definition get_body (d : gdesc) (nbytes : N) (b : buf) : res (tryres (Z * buf)) :=
  match g_kind d with
  | GK8 =>
      if remaining b <? 1 then Ok (TErr 1 (remaining b))
      else match chunk b with
           | [] => Panic                                   (* chunk()[0] *)
           | x :: _ => do b' <- advance 1 b; Ok (TOk (dec BE (g_signed d) [x], b'))
           end
  | GKFixed =>
      let size := g_size d in
      if remaining b <? size then Ok (TErr size (remaining b))
      else let c := chunk b in
           if size <=? lenN c                                  (* chunk().get(..SIZE) *)
           then do b' <- advance size b; Ok (TOk (dec (g_endian d) (g_signed d) (firstnN size c), b'))
           else do (bs, b') <- copy_to_slice size b; Ok (TOk (dec (g_endian d) (g_signed d) bs, b'))
  | GKVar =>
      if 8 <? nbytes then Panic                                  (* panic_does_not_fit *)
      else do r <- try_copy_to_slice_d nbytes b;
           match r with
           | TErr q a => Ok (TErr q a)
           | TOk (bs, b') =>
               let u := match g_endian d with
                        | BE => be_val (repeat 0 (N.to_nat (8 - nbytes)) ++ bs)
                        | LE => le_val (bs ++ repeat 0 (N.to_nat (8 - nbytes)))
                        end in
               Ok (TOk ((if g_signed d then sign_extend_code u nbytes else Z.of_N u), b'))
           end
  end.
Definition finish (d : gdesc) (r : res (tryres (Z * buf))) : res (tryres (Z * buf)) :=
  if g_try d then r else do x <- r; match x with TOk v => Ok (TOk v) | TErr _ _ => Panic end.

Section Tables.
  Variable getters : list (string * gdesc).        (* Gen.GetPut.getters: name -> resolved body *)
  Variable fwd : list (string * string).           (* Gen.GetPut.buf_forward: method -> method called on **self *)
  Fixpoint assoc {A} (k : string) (l : list (string * A)) : option A :=
    match l with [] => None | (k', v) :: r => if String.eqb k k' then Some v else assoc k r end.
  Definition rewrap (r : res (tryres (Z * buf))) : res (tryres (Z * buf)) :=
    do x <- r; Ok (match x with TOk (v, b') => TOk (v, Fwd b') | TErr q a => TErr q a end).
  (* method `name` called on tree b; None = no such method in the table *)
  Fixpoint get (name : string) (nbytes : N) (b : buf) : option (res (tryres (Z * buf))) :=
    match b with
    | Fwd x =>
        match assoc name fwd with
        | Some target => option_map rewrap (get target nbytes x)
        | None => option_map (fun d => finish d (get_body d nbytes b)) (assoc name getters)
        end
    | _ => option_map (fun d => finish d (get_body d nbytes b)) (assoc name getters)
    end.
  (* decidable side condition on the regenerated tables *)
  Definition getter_entry_ok (e : string * gdesc) : bool :=
    match spec_of_getter (fst e) with Some d => gdesc_eqb d (snd e) | None => false end.
  Definition fwd_entry_ok (e : string * string) : bool := String.eqb (fst e) (snd e).
  Definition tables_ok : bool := forallb getter_entry_ok getters && forallb fwd_entry_ok fwd.
End Tables.

(* Base: machine words, outcomes, list helpers over N indices.  Definitions only. *)
From Coq Require Export List NArith ZArith Bool.
Export ListNotations.
Local Open Scope N_scope.

Definition byte := N.                       (* values < 256 *)
Definition usize_max : N := 18446744073709551615.   (* 2^64 - 1: 64-bit target (DESIGN §7) *)
Definition lenN {A} (l : list A) : N := N.of_nat (length l).
(* clamped before conversion to nat, so that usize::MAX is an ordinary argument for the evaluators;
   equal to firstn/skipn (N.to_nat n) (Base lemmas firstnN_eq/skipN_eq) *)
Definition firstnN {A} (n : N) (l : list A) : list A := firstn (N.to_nat (N.min n (lenN l))) l.
Definition skipN {A} (n : N) (l : list A) : list A := skipn (N.to_nat (N.min n (lenN l))) l.
Definition sat_add (a b : N) : N := N.min (a + b) usize_max.
Definition sat_sub (a b : N) : N := a - b.        (* N subtraction truncates at 0 *)

(* outcome of a call: a value, a panic (unwinding), or fuel exhaustion of a modelled loop *)
Inductive res (A : Type) := Ok (a : A) | Panic | Fuel.
Arguments Ok {A} a. Arguments Panic {A}. Arguments Fuel {A}.
Definition bind {A B} (r : res A) (f : A -> res B) : res B :=
  match r with Ok a => f a | Panic => Panic | Fuel => Fuel end.
Notation "'do' x <- r ; k" := (bind r (fun x => k)) (at level 200, x pattern, r at level 100, k at level 200, right associativity).

"""./check setup : build everything from files on disk (offline): harness (debug+release), translators -> Gen/*.v,
full Coq build, extraction + modelrun."""
import importlib, os, sys, core
PROPS = ["C%02d" % i for i in range(1, 19)]
def main():
    bins = {}
    for prof in ("debug", "release"):
        bins[prof] = core.ensure_harness(prof)
    for p in PROPS:
        try: mod = importlib.import_module("p_" + p.lower())
        except ImportError: continue
        ctx = core.Ctx(p, "quick", 0)
        mod.translators(ctx, bins)
    res = core.ensure_coq()
    if not res["ok"]:
        print(res["log"][-4000:]); return 1
    core.ensure_modelrun()
    print("setup ok")
    return 0

"""C17 — misbehaving safe trait implementations cannot make the crate memory-unsafe.
Proof: Properties/C17.v over M6 (Adversary.v): for EVERY adversary (four arbitrary functions of the call number: every schedule of lies and
panics), every Take/Chain tree around it, every fuel, no consumer reaches an unsafe primitive outside its precondition; plus the bounds the
guards give (copy_to_bytes returns at most len bytes, a slice target never receives more than its room, ...).
Tie: T6 (inventory of unsafe sites and consumer bodies vs golden) and engine E8: a fault-injecting Buf logs every reply it gives; the log is
replayed through the extracted model and outcome / data / number of calls / advance arguments are compared; memory safety of the real run is
observed by the ledger allocator (exact frees, red zones, leak after unwinding) and guard bytes; iterators / owners are checked directly."""
import os, core, t6_unsafe
PROP = "C17"
NEEDS = {"profiles": ["debug", "release"], "modelrun": True}
RULE = ("E8: seeded cases; each = one consumer (try_get_u8/u16/u32/u64/u128/i32_le/f64, get_u32, try_copy_to_slice, copy_to_slice, copy_to_bytes, Reader::read, IntoIter, put into "
        "BytesMut / Vec / guarded &mut [u8], Take::chunks_vectored with 0..20 destination slots) on a random Take/Chain tree (limits 0, tiny, usize::MAX) around a lying Buf over 1-5 honest "
        "segments with a per-call fault rate of 0/5/15/30/60 % (remaining: 0, +k, -k, near usize::MAX, arbitrary, panic; chunk: empty, half, longer, unrelated, one byte, panic; advance: ignored, "
        "panic; chunks_vectored: over-/under-claim, extra / fewer slices, near usize::MAX, panic); the liar panics after 300 calls (a liar may keep a consumer looping - not a safety matter); "
        "iterators: Extend<u8>/Extend<&u8>/FromIterator for Bytes and BytesMut with lower/upper hints 0, exact, too large, too small, near usize::MAX, panicking next()/size_hint(), "
        "optionally with sibling handles in the same allocation; owners: as_ref answering differently per call or panicking; debug and release builds, even and odd buffer addresses; "
        "non-trivial = script with more than 3 replies")
ASSUMPTIONS = ["M6 is a hand-written transliteration of the consumers; tied by T6 (unsafe-site inventory and consumer bodies vs golden) and by exact replay of the logged replies",
               "std's Vec::reserve / extend_from_slice / slice indexing are safe code and trusted; BytesMut::reserve's post-condition is C04's theorem (here an oracle with arbitrary slack)",
               "serde's visitors with lying size hints are covered by the serde engine of C15 (safe code: no unsafe site in serde.rs, checked by T6)",
               "a liar can make a consumer loop forever (try_copy_to_slice on empty chunks): outcome Hang in the model, ended by a panic after 300 calls in the harness"]
TRUSTED_EXTRA = ["T6: translators/t6_unsafe.py + translators/t6_golden.json", "harness/src/e_adv.rs (fault injection, reply log)", "extract/run_adv.ml"]
DIRECT = r"^c17-"
def translators(ctx, bins):
    st = t6_unsafe.generate(core.REPO, os.path.join(core.TH, "Gen", "UnsafeSites.v"))
    ctx.cov["translators"] = {"T6": "ok" if st["ok"] else "problems", "unsafe_sites": st.get("unsafe_sites"), "consumers_followed": st.get("consumers")}
    for p in st["problems"]: ctx.tie.append({"kind": "translator", "detail": "T6: %s" % (p,)})
    for d in st["diffs"]: ctx.tie.append({"kind": "correspondence", "detail": "T6: %s differ from what M6 was written against: %s" % (d["what"], {k: v for k, v in d.items() if k != "what"})})
def engines(ctx, bins):
    def go():
        n = int((1500 if ctx.tier == "quick" else 40000) * ctx.budget)
        jobs, meta = [], []
        for prof in ("debug", "release"):
            for i in range(4 if ctx.tier == "quick" else 7):
                jobs.append(([bins[prof], "adv", "--seed", str(ctx.seed * 17 + i), "--n", str(n)], [bins["modelrun"], "adv"])); meta.append(prof)
        out = {"mism": [], "stats": {}, "samples": [], "dist": {}, "abnormal": [], "iter": {"cases": 0, "bad": [], "kinds": {}}}
        for (rh, rm, o, err), job, prof in zip(core.run_pipes(jobs, timeout=3000), jobs, meta):
            mism, stats, samples, dist = core.parse_model_out(o)
            if rh != 0 or rm != 0: out["abnormal"].append("%s [%s]: harness rc=%s modelrun rc=%s %s" % (" ".join(job[0][1:]), prof, rh, rm, err[-400:]))
            for m in mism: m["detail"] = "[%s] %s" % (prof, m["detail"])
            out["mism"] += mism[:20]; out["samples"] += samples[:2]
            for k, v in stats.items():
                if isinstance(v, int): out["stats"][k] = out["stats"].get(k, 0) + v
            for k, v in dist.items(): out["dist"][k] = out["dist"].get(k, 0) + v
        import subprocess
        for prof in ("debug", "release"):
            for i in range(2):
                cmd = [bins[prof], "adv-iter", "--seed", str(ctx.seed * 19 + i), "--n", str(n)]
                p = subprocess.run(cmd, capture_output=True, text=True, timeout=3000)
                if p.returncode != 0: out["abnormal"].append("%s [%s]: rc=%s %s" % (" ".join(cmd[1:]), prof, p.returncode, p.stderr[-400:]))
                for l in p.stdout.splitlines():
                    if not l.startswith("Y "): continue
                    f = dict(kv.split("=", 1) for kv in l.split()[1:] if "=" in kv)
                    out["iter"]["cases"] += 1; out["iter"]["kinds"][f["kind"]] = out["iter"]["kinds"].get(f["kind"], 0) + 1
                    if f.get("viol") != "0" and len(out["iter"]["bad"]) < 20: out["iter"]["bad"].append({"kind": "c17-memory", "detail": "[%s] %s: %s :: %s" % (prof, f["kind"], f.get("detail"), l[:600])})
                    elif f.get("bad") != "-" and len(out["iter"]["bad"]) < 20: out["iter"]["bad"].append({"kind": "c17-" + f["kind"], "detail": "[%s] %s :: %s" % (prof, f.get("bad"), l[:600])})
        return out
    res = core.cached("adv", [ctx.tier, ctx.seed, ctx.budget], go)
    ctx.add_stats(res["stats"], res["samples"], res["dist"])
    ctx.cov["evaluations"] = ctx.cov.get("evaluations", 0) + res["iter"]["cases"]
    ctx.cov["distinct_nontrivial"] = ctx.cov.get("distinct_nontrivial", 0) + res["iter"]["cases"]
    ctx.cov.setdefault("distribution", {}).update({"iter_" + k: v for k, v in res["iter"]["kinds"].items()})
    for a in res["abnormal"]: ctx.failing.append({"kind": "abnormal-exit", "detail": a, "case": a})
    ctx.absorb(res["mism"], DIRECT)
    for b in res["iter"]["bad"]: ctx.failing.append({"kind": b["kind"], "detail": b["detail"], "case": b["detail"]})
    ctx.cov["traces_validated_against_impl"] = ctx.cov.get("evaluations", 0)
def replay(ctx, bins, payload): engines(ctx, bins)

"""C09 — every Buf is a faithful cursor.  Proof: Properties/C09.v over arbitrary trees (M4); tie: E2/E3 differential
run of the extracted model against the crate's own types + the laws evaluated directly on the implementation."""
import eng_buf
PROP = "C09"
NEEDS = {"profiles": ["debug", "release"], "modelrun": True}
RULE = ("random adapter trees (depth<=4/5; leaves: slice, Bytes x9 representations, BytesMut x5, Cursor incl. position past the end, wrapped VecDeque, "
        "foreign multi-chunk Buf with empty chunks; Chain/Take/Box/&mut; one case in six has many tiny chunks - chains of 15..40 leaves under or beside a Take -, one in ten is 1023..5000 bytes long) x scripts of 1-8 cursor ops (remaining, chunk, chunks_vectored dst 0..64, advance, "
        "copy_to_slice, try_copy_to_slice, copy_to_bytes, into_iter, reader, getters, set_limit) with boundary arguments; plus the codec sweep; "
        "non-trivial = distinct case whose tree has an adapter or that ends in a panic")
ASSUMPTIONS = ["VecDeque::as_slices/drain, io::Cursor, IoSlice behave as modelled (checked by the state comparison on every step)",
               "the foreign Buf `Chunked` of the harness stands for any law-abiding implementor using the default methods",
               "lengths < 2^64 (wf)"]
TRUSTED_EXTRA = ["T3: translators/t3_tables.py (take.rs LEN constant used by chunks_vectored theorem)"]
DIRECT = r"^c09-"
def translators(ctx, bins): eng_buf.translators(ctx, bins)
def engines(ctx, bins): eng_buf.absorb(ctx, eng_buf.run(ctx, bins), DIRECT)
def replay(ctx, bins, payload): eng_buf.replay(ctx, bins, payload, DIRECT)

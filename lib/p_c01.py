"""C01 — see Properties/C01.v (theorems) and eng_heap.py (engine E1)."""
import eng_heap
PROP = "C01"
NEEDS = {"profiles": ["debug", "release"], "modelrun": True}
RULE = ("seeded random histories (3..30/60 operations, up to ~8 live handles) over 45 operations + 15 further public entry points (expanded by EntryDef.expand) of Bytes / BytesMut / Vec<u8> starting from every "
        "representation (static, Vec-backed exact/spare, owner-backed incl. panicking as_ref, BytesMut inline/shared, zero-capacity), boundary-biased arguments, "
        "in {debug, release} x {even, odd byte-buffer addresses}, plus arena histories (adjacent buffers) and big histories (payloads 1 KiB..128 KiB, half of them focused on one or two handles with the operations of a codec buffer); this property: every live handle's contents and length after every step equal the value model M1 (independent Vec<u8> per handle); return handles; non-trivial = history with >= 2 simultaneously live handles or a panic")
ASSUMPTIONS = ["block-memory semantics of raw pointers / Vec / Box as modelled in Heap.v", "std's Vec growth is an oracle: the observed capacity is fed to the model",
               "uninitialised-memory reads and provenance are not tracked"]
TRUSTED_EXTRA = ["ledger allocator harness/src/ledger.rs (tracked sections, quarantine, red zones)"]
DIRECT = r'^c01-'
def translators(ctx, bins): eng_heap.translators(ctx)
def engines(ctx, bins): eng_heap.absorb(ctx, eng_heap.run(ctx, bins), DIRECT)
def replay(ctx, bins, payload): eng_heap.replay(ctx, bins, payload, DIRECT)

"""C15 — Debug / hex / serde round-trip.  Proof: Properties/C15.v (for any table passing table_ok);
tie: T4 regenerates the tables by executing the crate; E5/fmt checks the per-byte homomorphism
and evaluates the property's own predicates (parse_lit/unhex of the real output) directly."""
import os, core, t4_escapes
PROP = "C15"
NEEDS = {"profiles": ["debug"], "modelrun": True}
RULE = ("all 256 single bytes x 14 representations, all 65536 byte pairs (quick: pairs too), N random longer strings biased to "
        "escape-relevant bytes; serde: every visitor entry point x size hints x both types + serializer + serde_test tokens; "
        "non-trivial = distinct input of length >= 2")
ASSUMPTIONS = ["the Rust reference's byte-string literal grammar is what Fmt.lex1 implements (independent of the formatter)",
               "serde data model as exercised through a hand-written Deserializer and serde_test",
               "formatters are per-byte homomorphisms: checked exhaustively on pairs and on random strings, not proved about the Rust code"]
TRUSTED_EXTRA = ["T4: escape tables tabulated by executing the current crate (translators/t4_escapes.py, harness `escapes`)"]
DIRECT = r"^(debug-decodes-differently|debug-not-a-literal|lowerhex-(does-not-decode|length|charset)|upperhex-(does-not-decode|length|charset)|serde-visit|serde-serialize|serde-test-tokens|badframe)"

def translators(ctx, bins):
    st = t4_escapes.generate(bins["debug"], os.path.join(core.TH, "Gen", "Escapes.v"))
    ctx.cov["translators"] = {"T4": "executed" if st["ok"] else "problems"}
    for p in st["problems"]:
        if isinstance(p, dict) and p.get("kind") == "frame":
            ctx.failing.append({"kind": "badframe", "detail": "Debug of one-byte string [%d] of %s is not framed b\"...\": codes %s" % (p["byte"], p["type"], p["debug_codes"]), "case": p})
        else:
            ctx.tie.append({"kind": "translator", "detail": "T4: %s" % (p,)})

def engines(ctx, bins):
    n = ctx.scale(400, 20000)
    for sub in ("fmt", "serde"):
        nn = n if sub == "fmt" else max(50, n // 8)
        rh, rm, out, err = core.run_pipe([bins["debug"], sub, "--seed", str(ctx.seed), "--n", str(nn)], [bins["modelrun"], "fmt"])
        mism, stats, samples, dist = core.parse_model_out(out)
        if rh != 0 or rm != 0:
            ctx.failing.append({"kind": "abnormal-exit", "detail": "%s: harness rc=%s modelrun rc=%s %s" % (sub, rh, rm, err[-400:]), "case": sub})
        ctx.add_stats(stats, samples, dist)
        ctx.absorb(mism, DIRECT)
    ctx.cov["traces_validated_against_impl"] = ctx.cov.get("evaluations", 0)
    ctx.cov.setdefault("samples", []).extend(["F <repr> <input-hex> <debug-hex> <lowerhex-hex> <upperhex-hex>  e.g. input 00 37 -> b\"\\x007\"",
                                               "S bytes seq:4096 <input> <result>", "side condition: table_ok (tbl_of Gen.Escapes.bytes_debug_codes) = true"])

def replay(ctx, bins, payload):
    engines(ctx, bins)

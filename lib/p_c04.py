"""C04 — see Properties/C04.v (theorems) and eng_heap.py (engine E1)."""
import eng_heap
PROP = "C04"
NEEDS = {"profiles": ["debug", "release"], "modelrun": True}
RULE = ("seeded random histories (3..30/60 operations, up to ~8 live handles) over 45 operations of Bytes / BytesMut / Vec<u8> starting from every "
        "representation (static, Vec-backed exact/spare, owner-backed incl. panicking as_ref, BytesMut inline/shared, zero-capacity), boundary-biased arguments, "
        "in {debug, release} x {even, odd byte-buffer addresses}; this property: after every step: BytesMut windows [ptr, ptr+cap) pairwise disjoint, disjoint from non-empty Bytes views, inside their block; reserve / try_reclaim post-conditions with arguments around 0, spare, allocation size, isize::MAX, usize::MAX; non-trivial = history with >= 2 simultaneously live handles or a panic")
ASSUMPTIONS = ["block-memory semantics of raw pointers / Vec / Box as modelled in Heap.v", "std's Vec growth is an oracle: the observed capacity is fed to the model",
               "uninitialised-memory reads and provenance are not tracked"]
TRUSTED_EXTRA = ["ledger allocator harness/src/ledger.rs (tracked sections, quarantine, red zones)"]
DIRECT = r'^c04-'
def translators(ctx, bins): eng_heap.translators(ctx)
def engines(ctx, bins): eng_heap.absorb(ctx, eng_heap.run(ctx, bins), DIRECT)
def replay(ctx, bins, payload): eng_heap.replay(ctx, bins, payload, DIRECT)

"""C12 — Take/Limit/Chain/Reader/Writer.  Read half: Properties/C12.v (adv equations, reader) + E2 state comparison after every op
(limit(), get_ref(), into_inner() of every nested adapter through the Inspect trait).  Write half: see p_c11/eng_bufmut (Limit, chain_mut, Writer)."""
import re, eng_buf
PROP = "C12"
NEEDS = {"profiles": ["debug", "release"], "modelrun": True}
RULE = ("as C09; after EVERY operation the whole adapter tree is described through limit()/get_ref()/first_ref()/last_ref() and compared: "
        "limits and inner sequences must equal the model's `adv k` (kind c12-state); reader read/fill_buf/consume; set_limit mid-stream at any nested Take; "
        "non-trivial = distinct case with at least one adapter node")
ASSUMPTIONS = ["as C09"]
TRUSTED_EXTRA = []
DIRECT = r"^c12-|^c09-"
def _adapter_case(m):
    c = m["detail"].split(" :: B ")[-1].split(" ")[0]
    return m["kind"].startswith("c12-") or ("T" in c or "C(" in c)
def translators(ctx, bins): eng_buf.translators(ctx, bins)
def engines(ctx, bins):
    eng_buf.absorb(ctx, eng_buf.run(ctx, bins), DIRECT, _adapter_case)
    import eng_bufmut
    r2 = eng_bufmut.run(ctx, bins)
    # write half: writer / limits / chain order (c12w-*), and any c11 failure on a tree that contains Limit or Chain
    r2f = dict(r2); r2f["mism"] = [m for m in r2["mism"] if m["kind"].startswith("c12w-") or m["kind"].startswith("model-") or (m["kind"].startswith("c11-") and re.search(r":: M \S*(L\d|C\()", m["detail"]))]
    eng_bufmut.absorb(ctx, r2f, r"^c12w-|^c11-|^hang")
def replay(ctx, bins, payload): eng_buf.replay(ctx, bins, payload, DIRECT)

"""Shared machinery of ./check: builds (Coq, extraction, harness), translators, proof-obligation
bookkeeping, hygiene, verdict logic, evidence and replay files.  See DESIGN.md §2.4, §9."""
import fcntl, hashlib, json, os, re, subprocess, sys, time

ROOT = os.path.dirname(os.path.dirname(os.path.abspath(__file__)))
REPO = os.environ.get("VERIF_REPO", "/repo")
BUILD = os.path.join(ROOT, "build")
COQ = os.path.join(ROOT, "coq")
TH = os.path.join(COQ, "theories")
TARGET = os.path.join(BUILD, "target")
MODELRUN = os.path.join(BUILD, "modelrun")
GUARD = "tokio_rs_bytes_verif"
NPROC = os.cpu_count() or 4

TRUSTED_BASE = [
    "Coq 8.16.1 kernel via coqc (full .vo build, no -vos), vm_compute for closed side conditions; native_compute not used",
    "no axioms: every property theorem must print 'Closed under the global context' (allowlist empty)",
    "extraction with ExtrOcamlBasic only (bool/option/unit/list/prod/sumbool/sumor); OCaml 4.13.1; drivers in /verif/extract",
    "translators in /verif/translators (report what the source says / what the crate prints)",
    "Rust harness /verif/harness (generators, ledger allocator, observers) and this Python driver",
]

class BuildError(Exception):
    def __init__(self, what, log):
        super().__init__(what); self.what = what; self.log = log

def sh(cmd, timeout=1200, cwd=None, env=None, inp=None):
    e = dict(os.environ); e.update({"CARGO_NET_OFFLINE": "true"}); e.update(env or {})
    try:
        p = subprocess.run(cmd, shell=isinstance(cmd, str), cwd=cwd, env=e, input=inp, capture_output=True, text=True, timeout=timeout)
        return p.returncode, p.stdout + p.stderr
    except subprocess.TimeoutExpired as ex:
        o = (ex.stdout or b"")
        o = o.decode(errors="replace") if isinstance(o, bytes) else o
        return 124, o + "\n[timeout after %ss]" % timeout

class Lock:
    def __enter__(self):
        os.makedirs(BUILD, exist_ok=True)
        self.f = open(os.path.join(BUILD, ".lock"), "w"); fcntl.flock(self.f, fcntl.LOCK_EX); return self
    def __exit__(self, *a):
        fcntl.flock(self.f, fcntl.LOCK_UN); self.f.close()

# ----------------------------------------------------------------------------- harness
def ensure_harness(profile="debug", features=None, rustflags=None, tag=""):
    """cargo build of /verif/harness against REPO's working tree. Returns path of bvh."""
    hdir = os.path.join(ROOT, "harness")
    lock_src = os.path.join(REPO, "Cargo.lock")
    lock_dst = os.path.join(hdir, "Cargo.lock")
    if not os.path.exists(lock_dst) and os.path.exists(lock_src):
        txt = open(lock_src).read(); open(lock_dst, "w").write(txt)
    tdir = TARGET + (("-" + tag) if tag else "")
    cmd = ["cargo", "build", "--offline", "--quiet"]
    if profile == "release": cmd.append("--release")
    if features is not None: cmd += ["--no-default-features", "--features", features]
    env = {"CARGO_TARGET_DIR": tdir, "RUSTFLAGS": (rustflags if rustflags is not None else "--cfg " + GUARD + " -Awarnings")}
    with Lock():
        rc, out = sh(cmd, timeout=900, cwd=hdir, env=env)
        if rc != 0 and "Cargo.lock" in out:
            try: os.remove(lock_dst)
            except OSError: pass
            rc, out = sh(cmd, timeout=900, cwd=hdir, env=env)
    if rc != 0:
        raise BuildError("harness build (%s) failed" % profile, out[-6000:])
    return os.path.join(tdir, "release" if profile == "release" else "debug", "bvh")

# ----------------------------------------------------------------------------- Coq
def coq_files():
    out = []
    for line in open(os.path.join(COQ, "_CoqProject")):
        line = line.strip()
        if line.endswith(".v"): out.append(line)
    return out

def _deps():
    """file.v -> set of .v it depends on (from coqdep's .Makefile.d)"""
    d = {}
    p = os.path.join(COQ, ".Makefile.d")
    if not os.path.exists(p): return d
    for line in open(p):
        if ":" not in line: continue
        lhs, rhs = line.split(":", 1)
        tgt = [x for x in lhs.split() if x.endswith(".vo")]
        if not tgt: continue
        src = tgt[0][:-1]
        d.setdefault(src, set()).update(x[:-1] for x in rhs.split() if x.endswith(".vo"))
    return d

def closure_deps(f, deps=None):
    deps = deps or _deps()
    seen, todo = set(), [f]
    while todo:
        x = todo.pop()
        for y in deps.get(x, ()):
            if y not in seen: seen.add(y); todo.append(y)
    return seen

def _theorem_at(vfile, line):
    try: lines = open(os.path.join(COQ, vfile)).read().split("\n")
    except OSError: return None
    for i in range(min(line, len(lines)) - 1, -1, -1):
        m = re.match(r"\s*(?:Local\s+|Global\s+)?(Theorem|Lemma|Example|Corollary|Definition|Fixpoint|Fact|Instance)\s+([A-Za-z0-9_']+)", lines[i])
        if m: return m.group(2)
    return None

def ensure_coq(targets=None, timeout=2400):
    """(re)build the Coq development.  Returns dict(ok, failures=[{file,line,theorem,msg}], log)."""
    with Lock():
        mk = os.path.join(COQ, "Makefile")
        cp = os.path.join(COQ, "_CoqProject")
        if not os.path.exists(mk) or os.path.getmtime(mk) < os.path.getmtime(cp):
            rc, out = sh("coq_makefile -f _CoqProject -o Makefile", cwd=COQ, timeout=120)
            if rc != 0: raise BuildError("coq_makefile failed", out)
        tg = " ".join(t[:-2] + ".vo" for t in targets) if targets else ""
        rc, out = sh("make -k -j%d %s" % (NPROC, tg), cwd=COQ, timeout=timeout)
    failures = []
    for m in re.finditer(r'File "\./?([^"]+)", line (\d+), characters [\d-]+:\s*\n((?:(?!File ").*\n?)*)', out):
        f, ln, body = m.group(1), int(m.group(2)), m.group(3)
        if not re.search(r"^\s*Error", body, re.M): continue
        failures.append({"file": f, "line": ln, "theorem": _theorem_at(f, ln), "msg": body.strip()[:600]})
    if rc != 0 and not failures:
        failures.append({"file": "?", "line": 0, "theorem": None, "msg": out[-1500:]})
    return {"ok": rc == 0, "failures": failures, "log": out}

def property_obligations(prop, coqres):
    """Compile Properties/<prop>.v on its own (capturing Print Assumptions); count theorems.
    Returns dict(stated, discharged, theorems=[...], broken=[...], assumptions_ok)"""
    vrel = "theories/Properties/%s.v" % prop
    vabs = os.path.join(COQ, vrel)
    src = open(vabs).read()
    names = re.findall(r"^\s*(?:Theorem|Lemma|Example|Corollary)\s+([A-Za-z0-9_']+)", src, re.M)
    res = {"stated": len(names), "theorems": names, "broken": [], "assumptions": {}, "assumptions_ok": True}
    deps = closure_deps(vrel) | {vrel}
    upstream = [f for f in coqres["failures"] if f["file"] in deps or f["file"] == "?"]
    if upstream:
        res["discharged"] = 0 if any(f["file"] != vrel for f in upstream) else None
        res["broken"] = upstream
    # compile the property file alone to read its Print Assumptions output
    rc, out = sh(["coqc", "-Q", "theories", "BV", "-w", "-all", vrel], cwd=COQ, timeout=600)
    if rc != 0:
        m = re.search(r'line (\d+), characters', out)
        ln = int(m.group(1)) if m else 0
        th = _theorem_at(vrel, ln)
        if not any(b.get("theorem") == th and b["file"] == vrel for b in res["broken"]):
            res["broken"].append({"file": vrel, "line": ln, "theorem": th, "msg": out.strip()[-600:]})
        # theorems before the failing one still count as discharged
        before = [n for n in names if src.find(n) < _offset_of_line(src, ln)] if ln else []
        res["discharged"] = 0 if any(b["file"] != vrel for b in res["broken"]) else len(before)
        return res
    pa = re.findall(r"^\s*Print Assumptions\s+([A-Za-z0-9_']+)", src, re.M)
    blocks = re.split(r"(?m)^(?=Closed under the global context|Axioms:)", out)
    blocks = [b for b in blocks if b.startswith("Closed") or b.startswith("Axioms:")]
    for i, n in enumerate(pa):
        b = blocks[i] if i < len(blocks) else "?"
        closed = b.startswith("Closed under the global context")
        res["assumptions"][n] = "closed" if closed else b.strip()[:300]
        if not closed: res["assumptions_ok"] = False
    if len(blocks) != len(pa): res["assumptions_ok"] = False
    res["discharged"] = len(names) if not res["broken"] else 0
    return res

def _offset_of_line(src, ln):
    off = 0
    for i, l in enumerate(src.split("\n")):
        if i + 1 >= ln: return off
        off += len(l) + 1
    return off

FORBIDDEN = re.compile(r"\b(Admitted|admit|Axiom|Axioms|Parameter|Parameters|Conjecture|Hypothesis|Variable|Variables|Unset Guard Checking|Unset Positivity Checking|Unset Universe Checking|bypass_check|type-in-type|impredicative-set|Admit Obligations|native_compute)\b")
def hygiene():
    """forbidden vocabulary outside comments in every .v of the development (Variable/Hypothesis are
    allowed inside a Section only)."""
    bad = []
    for dp, _, fs in os.walk(TH):
        for f in fs:
            if not f.endswith(".v"): continue
            p = os.path.join(dp, f)
            txt = open(p).read()
            txt = re.sub(r"\(\*.*?\*\)", lambda m: " " * len(m.group(0)) if "\n" not in m.group(0) else re.sub(r"[^\n]", " ", m.group(0)), txt, flags=re.S)
            depth = 0
            for i, line in enumerate(txt.split("\n")):
                if re.match(r"\s*Section\s+\w+", line): depth += 1
                if re.match(r"\s*End\s+\w+\s*\.", line) and depth > 0: depth -= 1
                for m in FORBIDDEN.finditer(line):
                    w = m.group(1)
                    if w in ("Variable", "Variables", "Hypothesis") and depth > 0: continue
                    bad.append("%s:%d:%s" % (os.path.relpath(p, ROOT), i + 1, w))
    proj = open(os.path.join(COQ, "_CoqProject")).read()
    for w in ("-type-in-type", "-impredicative-set", "-vos", "-vok"):
        if w in proj: bad.append("_CoqProject:" + w)
    return bad

def ensure_modelrun():
    """extraction (Extract.v, compiled in extract/gen so that model.ml lands there) + ocamlopt"""
    gen = os.path.join(ROOT, "extract", "gen")
    os.makedirs(gen, exist_ok=True)
    with Lock():
        ex = os.path.join(TH, "Extract.v")
        stamp = os.path.join(BUILD, "modelrun.stamp")
        h = hashlib.sha256()
        for f in sorted(coq_files()) + ["theories/Extract.v"]:
            p = os.path.join(COQ, f)
            if os.path.exists(p): h.update(open(p, "rb").read())
        for f in sorted(os.listdir(os.path.join(ROOT, "extract"))):
            p = os.path.join(ROOT, "extract", f)
            if os.path.isfile(p): h.update(open(p, "rb").read())
        key = h.hexdigest()
        if os.path.exists(stamp) and open(stamp).read() == key and os.path.exists(MODELRUN):
            return MODELRUN
        rc, out = sh(["coqc", "-Q", os.path.join(COQ, "theories"), "BV", "-w", "-all", ex], cwd=gen, timeout=900)
        if rc != 0: raise BuildError("extraction failed", out[-4000:])
        rc, out = sh(["sh", os.path.join(ROOT, "extract", "build.sh")], timeout=900)
        if rc != 0: raise BuildError("modelrun build failed", out[-4000:])
        open(stamp, "w").write(key)
    return MODELRUN

# ----------------------------------------------------------------------------- findings / verdict
def load_known():
    p = os.path.join(ROOT, "known_findings.json")
    if not os.path.exists(p): return []
    return json.load(open(p)).get("findings", [])

def match_known(prop, kind, detail):
    for k in load_known():
        if k.get("property") != prop or k.get("status") != "open": continue
        if re.search(k.get("kind_re", "^$"), kind) and re.search(k.get("detail_re", ""), detail): return k
    return None

def write_replay(prop, payload):
    d = os.path.join(BUILD, "replays"); os.makedirs(d, exist_ok=True)
    s = json.dumps(payload, indent=1, sort_keys=True)
    p = os.path.join(d, "%s-%s.json" % (prop, hashlib.sha256(s.encode()).hexdigest()[:12]))
    open(p, "w").write(s)
    return p

def write_evidence(prop, tier, seed, level, coverage, assumptions, wall, violations):
    os.makedirs(os.path.join(ROOT, "evidence"), exist_ok=True)
    ev = {"property_id": prop, "tier": tier, "seed": seed, "level": level, "coverage": coverage,
          "assumptions": assumptions, "wall_s": round(wall, 2), "violations": violations}
    p = os.path.join(ROOT, "evidence", prop + ".json")
    open(p + ".tmp", "w").write(json.dumps(ev, indent=1))
    os.replace(p + ".tmp", p)

def run_pipe(bvh_cmd, model_cmd, timeout=1800):
    """harness | modelrun ; returns (rc_h, rc_m, model_stdout, stderr_tail)"""
    ph = subprocess.Popen(bvh_cmd, stdout=subprocess.PIPE, stderr=subprocess.PIPE)
    pm = subprocess.Popen(model_cmd, stdin=ph.stdout, stdout=subprocess.PIPE, stderr=subprocess.PIPE, text=True)
    ph.stdout.close()
    try:
        out, err = pm.communicate(timeout=timeout)
        herr = ph.stderr.read().decode(errors="replace"); ph.wait(timeout=30)
    except subprocess.TimeoutExpired:
        pm.kill(); ph.kill(); return 124, 124, "", "timeout"
    return ph.returncode, pm.returncode, out, (herr + err)[-3000:]

def parse_model_out(out):
    """MISMATCH <kind> <detail…> / STATS k=v … / SAMPLE … / DIST …"""
    mism, stats, samples, dist = [], {}, [], {}
    for line in out.splitlines():
        if line.startswith("MISMATCH "):
            f = line.split(" ", 2); mism.append({"kind": f[1], "detail": f[2] if len(f) > 2 else ""})
        elif line.startswith("STATS "):
            for kv in line.split()[1:]:
                k, v = kv.split("=", 1)
                try: stats[k] = stats.get(k, 0) + int(v)
                except ValueError: stats[k] = v
        elif line.startswith("SAMPLE "): samples.append(line[7:])
        elif line.startswith("DIST "):
            for kv in line.split()[1:]:
                k, v = kv.split("=", 1); dist[k] = dist.get(k, 0) + int(v)
    return mism, stats, samples, dist

# ----------------------------------------------------------------------------- generic check driver
class Ctx:
    """what a property module gets: tier, seed, budgets, collected problems"""
    def __init__(self, prop, tier, seed):
        self.prop, self.tier, self.seed = prop, tier, seed
        self.failing = []      # direct failures of the property on the implementation: dict(kind, detail, case)
        self.diffs = []        # model/implementation disagreements (not by themselves violations)
        self.tie = []          # translator / side-condition problems: dict(kind, detail[, case])
        self.cov = {}          # coverage counters (summed) and lists
        self.assume = []
        self.budget = 1.0
    def scale(self, quick, thorough):
        return int((thorough if self.tier == "thorough" else quick) * self.budget)
    def add_stats(self, stats, samples=None, dist=None):
        for k, v in stats.items():
            if isinstance(v, int): self.cov[k] = self.cov.get(k, 0) + v
        if samples: self.cov.setdefault("samples", []).extend(samples[: max(0, 12 - len(self.cov.get("samples", [])))])
        if dist:
            d = self.cov.setdefault("distribution", {})
            for k, v in dist.items(): d[k] = d.get(k, 0) + v
    def absorb(self, mism, direct_re=None):
        """sort MISMATCH records into failing inputs (kind matches direct_re) and model diffs"""
        for m in mism:
            rec = {"kind": m["kind"], "detail": m["detail"], "case": m["detail"]}
            if direct_re is None or re.search(direct_re, m["kind"]): self.failing.append(rec)
            else: self.diffs.append(rec)

def run_check(prop, module, argv):
    """module provides: PROP, coq_targets (list of theories/..v or None), translators(ctx, bvh) -> None,
    engines(ctx, bins) -> None, RULE (str), ASSUMPTIONS (list), needs = dict(profiles=[...])"""
    t0 = time.time()
    tier = os.environ.get("VERIF_TIER", "quick")
    if "--tier" in argv: tier = argv[argv.index("--tier") + 1]
    if tier not in ("quick", "thorough"): tier = "quick"
    seed = int(os.environ.get("VERIF_SEED", "20260928") or 0)
    replay_in = argv[argv.index("--replay") + 1] if "--replay" in argv else None
    ctx = Ctx(prop, tier, seed)
    hard = []   # build failures etc. -> violation without failing input
    bins = {}
    try:
        for prof in module.NEEDS.get("profiles", ["debug"]):
            bins[prof] = ensure_harness(prof)
    except BuildError as e:
        hard.append({"kind": "harness-build", "detail": e.what, "log": e.log})
    # translators -> Gen/*.v
    if not hard:
        try: module.translators(ctx, bins)
        except BuildError as e: hard.append({"kind": "translator", "detail": e.what, "log": e.log})
    # Coq
    coqres = ensure_coq()
    obl = property_obligations(prop, coqres)
    bad_words = hygiene()
    if bad_words: ctx.tie.append({"kind": "hygiene", "detail": "forbidden vocabulary: " + ", ".join(bad_words[:10])})
    if not obl["assumptions_ok"]:
        ctx.tie.append({"kind": "assumptions", "detail": "Print Assumptions not closed: %s" % json.dumps(obl["assumptions"])[:800]})
    proof_broken = bool(obl["broken"]) or obl.get("discharged") != obl["stated"]
    if proof_broken:
        for b in obl["broken"][:5]:
            ctx.tie.append({"kind": "proof-obligation", "detail": "%s:%s theorem=%s: %s" % (b["file"], b["line"], b["theorem"], b["msg"][:400])})
    # engines
    if not hard:
        try:
            mr = ensure_modelrun() if module.NEEDS.get("modelrun", True) else None
            bins["modelrun"] = mr
            if replay_in:
                module.replay(ctx, bins, json.load(open(replay_in)))
            else:
                module.engines(ctx, bins)
                if (ctx.tie or ctx.diffs) and not ctx.failing:
                    # SEARCH: the tie broke but no failing input yet: larger budget, other seeds
                    ctx.budget = 10.0; ctx.seed = seed + 1
                    ctx.cov["search_rounds"] = 1
                    module.engines(ctx, bins)
        except BuildError as e:
            hard.append({"kind": "modelrun-build", "detail": e.what, "log": e.log})
    # verdict
    lines, nviol = [], 0
    def emit(rec, kind, suffix=""):
        nonlocal nviol
        k = match_known(prop, rec["kind"], rec["detail"])
        if k:
            lines.append("KNOWN-FINDING: property=%s %s" % (prop, k.get("what", rec["kind"])))
            return
        p = write_replay(prop, {"property": prop, "kind": kind, "seed": ctx.seed, "tier": tier,
                                "mismatch": rec["kind"], "detail": rec["detail"], "case": rec.get("case"),
                                "obligation": rec.get("obligation"), "log": rec.get("log", "")[-3000:]})
        lines.append("VIOLATION property=%s replay=%s%s" % (prop, p, suffix))
        nviol += 1
    seenk = set()
    for rec in ctx.failing:
        key = rec["kind"]
        if key in seenk: continue
        seenk.add(key); emit(rec, "impl-failing-input")
    if not ctx.failing:
        for rec in hard + ctx.tie + ctx.diffs[:3]:
            rec = dict(rec); rec["obligation"] = rec["detail"]
            emit(rec, "proof-obligation" if rec["kind"] in ("proof-obligation", "side-condition", "hygiene", "assumptions") else "correspondence",
                 " no-failing-input-found")
            break
    cov = dict(ctx.cov)
    cov.setdefault("evaluations", 0); cov.setdefault("distinct_nontrivial", 0)
    cov.update({"obligations": obl["stated"], "discharged": obl.get("discharged") or 0,
                "checker_cmd": "make -C /verif/coq (coq_makefile, full .vo) && coqc theories/Properties/%s.v (Print Assumptions) ; ./check %s --tier %s" % (prop, prop, tier),
                "trusted_base": TRUSTED_BASE + getattr(module, "TRUSTED_EXTRA", []),
                "theorems": [{"name": n, "assumptions": obl["assumptions"].get(n, "n/a (Example or not printed)"),
                              "status": "proved" if not proof_broken else "see broken"} for n in obl["theorems"]],
                "broken_obligations": ctx.tie, "model_diffs": ctx.diffs[:10], "failing_inputs": ctx.failing[:10],
                "rule": module.RULE, "known_findings_open": [k for k in load_known() if k.get("property") == prop and k.get("status") == "open"]})
    if not cov.get("samples"): cov["samples"] = obl["theorems"][:5]
    write_evidence(prop, tier, seed, "proof", cov, module.ASSUMPTIONS + ctx.assume, time.time() - t0, nviol)
    for l in lines: print(l)
    print("%s %s: obligations %d/%d, evaluations %d, failing %d, diffs %d, tie-problems %d, %.1fs" % (
        prop, tier, cov["discharged"], cov["obligations"], cov["evaluations"], len(ctx.failing), len(ctx.diffs), len(ctx.tie) + len(hard), time.time() - t0))
    return 1 if nviol else 0

# ----------------------------------------------------------------------------- shared engine runs
def tree_hash(paths, exts=None):
    h = hashlib.sha256()
    for root in paths:
        if os.path.isfile(root):
            h.update(open(root, "rb").read()); continue
        for dp, dn, fs in sorted(os.walk(root)):
            dn[:] = sorted(d for d in dn if d not in ("target", ".git", "build"))
            for f in sorted(fs):
                if exts and not f.endswith(exts): continue
                p = os.path.join(dp, f); h.update(p.encode()); h.update(open(p, "rb").read())
    return h.hexdigest()

def source_key():
    return tree_hash([os.path.join(REPO, "src"), os.path.join(REPO, "Cargo.toml"), os.path.join(ROOT, "harness", "src"), os.path.join(ROOT, "harness", "Cargo.toml"),
                      os.path.join(ROOT, "extract"), os.path.join(ROOT, "lib"), os.path.join(ROOT, "translators"), TH], None)

def cached(name, keyparts, fn):
    """run fn() once per (name, key) — key includes every source that can influence the result"""
    d = os.path.join(BUILD, "cache"); os.makedirs(d, exist_ok=True)
    key = hashlib.sha256(("|".join(str(k) for k in keyparts) + "|" + source_key()).encode()).hexdigest()[:24]
    p = os.path.join(d, "%s-%s.json" % (name, key))
    if os.path.exists(p) and not os.environ.get("VERIF_NOCACHE"):
        try: return json.load(open(p))
        except Exception: pass
    res = fn()
    json.dump(res, open(p + ".tmp", "w")); os.replace(p + ".tmp", p)
    # keep the cache small
    fs = sorted((os.path.getmtime(os.path.join(d, f)), f) for f in os.listdir(d))
    for _, f in fs[:-40]: os.remove(os.path.join(d, f))
    return res

def _big_stack():
    import resource
    try: resource.setrlimit(resource.RLIMIT_STACK, (resource.RLIM_INFINITY, resource.RLIM_INFINITY))
    except Exception:
        try: resource.setrlimit(resource.RLIMIT_STACK, (1 << 30, 1 << 30))
        except Exception: pass

def run_pipes(jobs, timeout=3000):
    """jobs: list of (bvh_cmd, model_cmd); run all in parallel; returns list of (rc_h, rc_m, out, err)"""
    procs = []
    for bvh_cmd, model_cmd in jobs:
        ph = subprocess.Popen(bvh_cmd, stdout=subprocess.PIPE, stderr=subprocess.PIPE)
        pm = subprocess.Popen(model_cmd, stdin=ph.stdout, stdout=subprocess.PIPE, stderr=subprocess.PIPE, text=True, preexec_fn=_big_stack, env=dict(os.environ, OCAMLRUNPARAM="s=8M"))
        ph.stdout.close(); procs.append((ph, pm))
    res = []
    for ph, pm in procs:
        try:
            out, err = pm.communicate(timeout=timeout)
            herr = ph.stderr.read().decode(errors="replace"); ph.wait(timeout=60)
            res.append((ph.returncode, pm.returncode, out, (herr + err)[-2000:]))
        except subprocess.TimeoutExpired:
            pm.kill(); ph.kill(); res.append((124, 124, "", "timeout"))
    return res

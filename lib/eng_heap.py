"""shared run of engine E1 (random histories over Bytes / BytesMut / Vec handles under the ledger allocator) in
{debug, release} x {even, odd}; the model driver evaluates the predicates of C01/C02/C03/C04/C07/C08/C13 directly on the
implementation and compares with M2 and M1; the per-history digests of the four configurations give C16."""
import os, re, core
def translators(ctx, bins=None):
    """T7: the representation constants of bytes_mut.rs / bytes.rs -> Gen/Consts.v (the lemma that M2 uses exactly these is ConstsTie.consts_tie_holds, pinned in C02/C18)"""
    import sys
    sys.path.insert(0, os.path.join(core.ROOT, "translators"))
    import t7_consts
    st = t7_consts.generate(core.REPO, os.path.join(core.TH, "Gen", "Consts.v"))
    ctx.cov.setdefault("translators", {})["T7"] = "ok" if st["ok"] else "problems"
    ctx.cov["translators"]["constants_read"] = len(st.get("values", {}))
    for pr in st["problems"]: ctx.tie.append({"kind": "translator", "detail": "T7: %s" % (pr,)})
def run(ctx, bins):
    tier, seed, budget = ctx.tier, ctx.seed, ctx.budget
    def go():
        shards = 4 if tier == "quick" else 12
        n = int((700 if tier == "quick" else 12000) * budget)
        cfgs = [(p, odd) for p in ("debug", "release") if p in bins for odd in (0, 1)]
        jobs = []
        for (prof, odd) in cfgs:
            for i in range(shards):
                jobs.append(([bins[prof], "heap-random", "--seed", str(seed * 1000 + i), "--n", str(n), "--odd", str(odd), "--wild", "30", "--maxops", "30" if i % 2 == 0 else "60"], [bins["modelrun"], "heap"]))
        # arena configuration: byte buffers adjacent in memory (debug build, even addresses), with the two-adjacent-buffers prologue
        if "debug" in bins:
            for i in range(2 if tier == "quick" else 6):
                jobs.append(([bins["debug"], "heap-random", "--seed", str(seed * 1000 + 500 + i), "--n", str(n), "--odd", "0", "--arena", "1", "--wild", "20", "--maxops", "30"], [bins["modelrun"], "heap"]))
        out = {"mism": [], "stats": {}, "samples": [], "dist": {}, "abnormal": [], "digests": {}, "configs": ["%s/%s" % (p, "odd" if o else "even") for p, o in cfgs] + (["debug/arena"] if "debug" in bins else [])}
        for (rh, rm, o, err), job in zip(core.run_pipes(jobs, timeout=2400), jobs):
            mism, stats, samples, dist = core.parse_model_out(o)
            cfgname = "%s/%s" % ("release" if "/release/" in job[0][0] else "debug", "odd" if job[0][job[0].index("--odd") + 1] == "1" else "even")
            shard = job[0][job[0].index("--seed") + 1]
            if "--arena" in job[0]: cfgname = "debug/arena"; shard += "a"
            if rh != 0 or rm != 0: out["abnormal"].append("%s [%s]: harness rc=%s modelrun rc=%s %s" % (" ".join(job[0][1:]), cfgname, rh, rm, err[-600:]))
            for m in mism: m["detail"] = "[%s] %s" % (cfgname, m["detail"])
            out["mism"] += mism; out["samples"] += samples[:1]
            for k, v in stats.items():
                if isinstance(v, int): out["stats"][k] = out["stats"].get(k, 0) + v
            for k, v in dist.items(): out["dist"][k] = out["dist"].get(k, 0) + v
            d = {}
            for l in o.splitlines():
                if l.startswith("DIGEST "):
                    _, c, h = l.split(); d[c] = h
            out["digests"]["%s|%s" % (shard, cfgname)] = d
        # C16: the same seeded history must give the same digest in every configuration
        byshard = {}
        for key, d in out["digests"].items():
            shard, cfg = key.split("|"); byshard.setdefault(shard, {})[cfg] = d
        diffs = []
        for shard, per in byshard.items():
            cfgl = sorted(per)
            if not cfgl: continue
            ref = per[cfgl[0]]
            for c in cfgl[1:]:
                for case, h in per[c].items():
                    if ref.get(case) != h:
                        diffs.append("history %s of `heap-random --seed %s` differs between %s and %s" % (case, shard, cfgl[0], c))
                        break
                if len(per[c]) != len(ref): diffs.append("`heap-random --seed %s`: %d histories in %s, %d in %s" % (shard, len(ref), cfgl[0], len(per[c]), c))
        out["c16"] = diffs[:20]; out["digest_count"] = sum(len(d) for d in out["digests"].values())
        out["digests"] = {}
        return out
    return core.cached("heap", [tier, seed, budget, sorted(bins)], go)
def absorb(ctx, res, direct_re):
    ctx.add_stats(res["stats"], res["samples"], res["dist"])
    ctx.cov["configs"] = res["configs"]
    for a in res["abnormal"]:
        ctx.failing.append({"kind": "hang" if "HANG" in a else "abnormal-exit", "detail": a, "case": a})
    for m in res["mism"]:
        rec = {"kind": m["kind"], "detail": m["detail"], "case": m["detail"].split(" :: ")[-1]}
        if re.search(direct_re, m["kind"]): ctx.failing.append(rec)
        elif m["kind"].startswith("model-"): ctx.diffs.append(rec)
    ctx.cov["traces_validated_against_impl"] = ctx.cov.get("evaluations", 0)
def replay(ctx, bins, payload, direct_re):
    import subprocess
    case = payload.get("case") or ""
    m = re.match(r"\[(\w+)/(\w+)\]", payload.get("detail") or "")
    prof = m.group(1) if m and m.group(1) in bins else "debug"
    p = subprocess.run([bins[prof], "heap-replay"], input=case + "\n", capture_output=True, text=True, timeout=120)
    q = subprocess.run([bins["modelrun"], "heap"], input=p.stdout, capture_output=True, text=True, timeout=120)
    print(p.stdout.strip()[:3000]); print(q.stdout.strip()[:3000])
    mism, stats, samples, dist = core.parse_model_out(q.stdout)
    absorb(ctx, {"mism": mism, "stats": stats, "samples": samples, "dist": dist, "abnormal": [], "configs": [prof]}, direct_re)

"""shared run of engines E2 (random Buf trees x scripts) and E3 (getter x chunk cuts x shortfalls) for C09/C10/C12"""
import os, core, t3_tables

def translators(ctx, bins):
    st = t3_tables.generate(core.REPO, os.path.join(core.TH, "Gen", "GetPut.v"))
    ctx.cov.setdefault("translators", {})["T3"] = {k: st.get(k) for k in ("ok", "getters", "putters", "buf_forward", "bufmut_forward", "take_len", "unparsed", "problems")}
    if not st["ok"]:
        for u in st.get("unparsed", []): ctx.tie.append({"kind": "translator", "detail": "T3: body of %s has a shape the translator does not understand (not covered by the theorem)" % u})
        for p in st.get("problems", []): ctx.tie.append({"kind": "translator", "detail": "T3: %s" % p})
    return st

def run(ctx, bins):
    tier, seed, budget = ctx.tier, ctx.seed, ctx.budget
    def go():
        shards = 4 if tier == "quick" else 16
        n_rand = int((15000 if tier == "quick" else 150000) * budget)
        reps = int((1 if tier == "quick" else 6) * budget)
        depth = 3 if tier == "quick" else 4
        jobs, profs = [], []
        for prof in [p for p in ("debug", "release") if p in bins]:
            for i in range(shards):
                jobs.append(([bins[prof], "buf-random", "--seed", str(seed * 1000 + i), "--n", str(n_rand), "--depth", str(depth + (i % 2))], [bins["modelrun"], "buf"])); profs.append(prof)
            for i in range(max(1, shards // 4)):
                jobs.append(([bins[prof], "buf-codec", "--seed", str(seed * 1000 + 500 + i), "--n", str(max(1, reps))], [bins["modelrun"], "buf"])); profs.append(prof)
        out = {"mism": [], "stats": {}, "samples": [], "dist": {}, "abnormal": []}
        for (rh, rm, o, err), job, prof in zip(core.run_pipes(jobs), jobs, profs):
            mism, stats, samples, dist = core.parse_model_out(o)
            for m in mism: m["prof"] = prof
            if rh != 0 or rm != 0: out["abnormal"].append("%s [%s]: harness rc=%s modelrun rc=%s %s" % (" ".join(job[0][1:]), prof, rh, rm, err[-300:]))
            out["mism"] += mism; out["samples"] += samples[:2]
            for k, v in stats.items():
                if isinstance(v, int): out["stats"][k] = out["stats"].get(k, 0) + v
            for k, v in dist.items(): out["dist"][k] = out["dist"].get(k, 0) + v
        return out
    return core.cached("buf2", [tier, seed, budget, sorted(bins)], go)

def absorb(ctx, res, direct_re, case_filter=None):
    import re
    ctx.add_stats(res["stats"], res["samples"], res["dist"])
    for a in res["abnormal"]: ctx.failing.append({"kind": "abnormal-exit", "detail": a, "case": a})
    for m in res["mism"]:
        rec = {"kind": m["kind"], "detail": m["detail"], "case": m["detail"].split(" :: ")[-1]}
        if re.search(direct_re, m["kind"]) and (case_filter is None or case_filter(m)): ctx.failing.append(rec)
        elif m["kind"].startswith("model-"): ctx.diffs.append(rec)
    ctx.cov["traces_validated_against_impl"] = ctx.cov.get("evaluations", 0)

def replay(ctx, bins, payload, direct_re):
    import subprocess
    case = payload.get("case") or ""
    p = subprocess.run([bins["debug"], "buf-replay"], input=case + "\n", capture_output=True, text=True, timeout=60)
    q = subprocess.run([bins["modelrun"], "buf"], input=p.stdout, capture_output=True, text=True, timeout=60)
    print(p.stdout.strip()); print(q.stdout.strip())
    mism, stats, samples, dist = core.parse_model_out(q.stdout)
    absorb(ctx, {"mism": mism, "stats": stats, "samples": samples, "dist": dist, "abnormal": []}, direct_re)

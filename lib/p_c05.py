"""C05 — handles sharing one storage can be cloned, read, converted and dropped concurrently.
Proof: Properties/C05.v over M8 (view-based release/acquire model of the reference-count protocols; any number of threads, any programs,
every interleaving, stale reads included), closed on the orderings regenerated from the source by T2.
Tie: T2 (orderings + atomic-operation skeleton of every protocol function vs the golden transliteration) and, as supporting evidence and
failing-input search, E6 (real threads under the ledger allocator) and E6m (Miri with many scheduler seeds)."""
import os, core, eng_conc, t2_orderings
PROP = "C05"
NEEDS = {"profiles": ["release"], "modelrun": False}
RULE = ("E6: seeded random programs (1-4 ops per thread out of clone / read / slice / drop / try_into_mut / Into<Vec> / Into<BytesMut> / yield; BytesMut pieces: write own region / reserve / "
        "try_reclaim / split_off+unsplit / Into<Vec>) on 2-4 real threads released together from a spin barrier, over 6 representations (promotable through one &Bytes with and without "
        "offset, shared, frozen BytesMut, owner-backed, BytesMut pieces), even and odd buffer addresses; every run is checked for: each read = original bytes at the original address, "
        "at most one zero-copy taker of the original block, no wrong/double free, red zones intact, ledger empty at the end.  E6m: 23 scenarios x scheduler seeds interpreted by Miri "
        "(use-after-free, leaks, data races, assertion on contents).  non-trivial = every run (>= 2 threads on one storage)")
ASSUMPTIONS = ["M8 is a hand-written model of the protocols: its step functions are tied to the source by T2's skeleton comparison (sequence of atomic operations and ordering arguments per "
               "protocol function vs a golden transliteration) - a structural change is reported as a broken correspondence, not silently accepted",
               "memory model: release/acquire views with coherence-permitted stale reads; SeqCst is treated as AcqRel; no out-of-thin-air values (RC11-style)",
               "real-thread and Miri runs sample schedules: they support the tie and search for failing inputs, they are not the proof",
               "the OS scheduler and hardware are not modelled: partial with respect to the real runtime"]
TRUSTED_EXTRA = ["T2: translators/t2_orderings.py (regex reader of atomic calls; golden skeleton translators/t2_golden.json)", "harness/src/e_conc.rs", "harness_miri/src/main.rs + Miri (nightly) as an interpreter"]

def translators(ctx, bins):
    st = t2_orderings.generate(core.REPO, os.path.join(core.TH, "Gen", "Orderings.v"))
    ctx.cov["translators"] = {"T2": "ok" if st["ok"] else "problems", "atomic_operations_per_file": st.get("totals")}
    for p in st["problems"]: ctx.tie.append({"kind": "translator", "detail": "T2: %s" % (p,)})
    for d in st["skeleton_diffs"]:
        ctx.tie.append({"kind": "correspondence", "detail": "T2: the atomic-operation skeleton of `%s` differs from the transliteration M8 was written against: expected %s found %s" % (d["function"], d["expected"], d["found"])})
def engines(ctx, bins):
    eng_conc.stress(ctx, bins)
    eng_conc.miri(ctx)
    ctx.failing[:] = [f for f in ctx.failing if not f["kind"].startswith("c06-")] + []   # races belong to C06 (reported there)
    ctx.cov["traces_validated_against_impl"] = ctx.cov.get("evaluations", 0)
def replay(ctx, bins, payload): engines(ctx, bins)

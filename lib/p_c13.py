"""C13 — see Properties/C13.v (theorems) and eng_heap.py (engine E1)."""
import eng_heap
PROP = "C13"
NEEDS = {"profiles": ["debug", "release"], "modelrun": True}
RULE = ("seeded random histories (3..30/60 operations, up to ~8 live handles) over 45 operations of Bytes / BytesMut / Vec<u8> starting from every "
        "representation (static, Vec-backed exact/spare, owner-backed incl. panicking as_ref, BytesMut inline/shared, zero-capacity), boundary-biased arguments, "
        "in {debug, release} x {even, odd byte-buffer addresses}; this property: 30% of histories carry out-of-contract arguments (len+1, cap+1, reversed / inclusive-overflowing ranges, foreign slice_ref, usize::MAX-k, isize::MAX+k): panic iff M1 says so; after a caught panic every handle is bit-for-bit as before; history continues; ledger empty at the end; non-trivial = history with >= 2 simultaneously live handles or a panic")
ASSUMPTIONS = ["block-memory semantics of raw pointers / Vec / Box as modelled in Heap.v", "std's Vec growth is an oracle: the observed capacity is fed to the model",
               "uninitialised-memory reads and provenance are not tracked"]
TRUSTED_EXTRA = ["ledger allocator harness/src/ledger.rs (tracked sections, quarantine, red zones)"]
DIRECT = r'^c13-'
def translators(ctx, bins): eng_heap.translators(ctx)
def engines(ctx, bins): eng_heap.absorb(ctx, eng_heap.run(ctx, bins), DIRECT)
def replay(ctx, bins, payload): eng_heap.replay(ctx, bins, payload, DIRECT)

"""C18 — recycling keeps memory and allocations bounded.  Proof: Properties/C18.v over the abstract reserve policy (any history length);
tie: E7 runs recycling patterns for N and FACTOR*N rounds on the crate under the ledger allocator and evaluates the theorem's bounds on the
measurements; the recycling op mix is also covered by the E1 histories (M2 replay)."""
import core, eng_heap
PROP = "C18"
NEEDS = {"profiles": ["debug", "release"], "modelrun": True}
RULE = ("54 periodic patterns (4 consumption modes: split_to / split / advance / split_off+replace x message, leftover and initial-capacity settings; six ways of refilling; messages of 8192/16384/70000 bytes with an unread tail above 4 KiB; small frames with a burst frame 8..300 times as long every 5th/7th/16th round) + seeded random patterns "
        "(message 1..70000 fixed or varying, leftover 0..m-1, bursts, initial capacity 0..64 KiB, retention window k in {0,1,2,5}, freeze+clone of parts, Bytes round trip of the recycling handle, "
        "unsplit of split parts), each for N and FACTOR*N rounds; measured per pattern: peak live bytes, byte-buffer allocations, largest capacity in the first N rounds and overall; "
        "non-trivial = pattern with more than one allocation")
ASSUMPTIONS = ["std's Vec::reserve grows to at most max(2*cap, needed, 8) (oracle hypothesis of the theorem; implied by the measured capacities staying within the bound)",
               "the abstract policy of Recycle.v is tied to Heap.reserve_inner by the simulation theorems of RecycleSim.v / RecycleRun.v (pinned)"]
TRUSTED_EXTRA = ["harness/src/e_recycle.rs (ledger statistics per round)"]
DIRECT = r"^c18-"
# the clause "a reserve on an empty handle that is alone on a large-enough buffer never allocates" is evaluated on every E1 history (kind shared with C08)
HEAP_DIRECT = r"^c08-sole-owner-reclaim"
def translators(ctx, bins):
    import eng_heap
    eng_heap.translators(ctx)
def engines(ctx, bins):
    def go():
        shards = 4 if ctx.tier == "quick" else 16
        npat = int((6 if ctx.tier == "quick" else 12) * ctx.budget)
        rounds, factor = (300, 30) if ctx.tier == "quick" else (10000, 100)
        jobs = [([bins["release"], "recycle", "--seed", str(ctx.seed * 100 + i), "--n", str(npat), "--rounds", str(rounds), "--factor", str(factor)], [bins["modelrun"], "recycle"]) for i in range(shards)]
        out = {"mism": [], "stats": {}, "samples": [], "abnormal": []}
        for (rh, rm, o, err), job in zip(core.run_pipes(jobs, timeout=3000), jobs):
            mism, stats, samples, dist = core.parse_model_out(o)
            if rh != 0 or rm != 0: out["abnormal"].append("%s: harness rc=%s modelrun rc=%s %s" % (" ".join(job[0][1:]), rh, rm, err[-400:]))
            out["mism"] += mism; out["samples"] += samples[:2]
            for k, v in stats.items():
                if isinstance(v, int): out["stats"][k] = out["stats"].get(k, 0) + v
        out["rounds"] = rounds * factor
        return out
    res = core.cached("recycle", [ctx.tier, ctx.seed, ctx.budget], go)
    ctx.add_stats(res["stats"], res["samples"])
    ctx.cov["rounds_per_pattern"] = res["rounds"]
    for a in res["abnormal"]: ctx.failing.append({"kind": "abnormal-exit", "detail": a, "case": a})
    for m in res["mism"]: ctx.failing.append({"kind": m["kind"], "detail": m["detail"], "case": m["detail"].split(" :: ")[-1]})
    eng_heap.absorb(ctx, eng_heap.run(ctx, bins), HEAP_DIRECT)
    ctx.cov["traces_validated_against_impl"] = ctx.cov.get("evaluations", 0)
def replay(ctx, bins, payload): engines(ctx, bins)

"""E9: feature-set differential (C16).  harness_feat (bvf) is built against the current /repo with and without the `std` feature (thorough tier:
also std + extra-platforms); the same seeded programs over the feature-independent API run in each build and the transcripts must be identical
line by line.  No model is involved: a differing line is a concrete program whose observable result depends on the feature set."""
import os, shutil, subprocess, core
FDIR = os.path.join(core.ROOT, "harness_feat")

def _build(tag, feats):
    lock = os.path.join(FDIR, "Cargo.lock")
    if not os.path.exists(lock) and os.path.exists(os.path.join(core.REPO, "Cargo.lock")): shutil.copy(os.path.join(core.REPO, "Cargo.lock"), lock)
    tdir = os.path.join(core.BUILD, "target-feat-" + tag)
    cmd = ["cargo", "build", "--offline", "--quiet"] + (["--features", feats] if feats else [])
    env = dict(os.environ, CARGO_NET_OFFLINE="true", CARGO_TARGET_DIR=tdir, RUSTFLAGS="-Awarnings")
    with core.Lock():
        p = subprocess.run(cmd, cwd=FDIR, env=env, capture_output=True, text=True, timeout=1800)
    if p.returncode != 0: raise core.BuildError("harness_feat build (%s) failed" % (feats or "no features"), (p.stderr or p.stdout)[-4000:])
    return os.path.join(tdir, "debug", "bvf")

def run(ctx):
    def go():
        n = int((3000 if ctx.tier == "quick" else 90000) * ctx.budget)
        cfgs = [("nostd", ""), ("std", "std")] + ([("extra", "std,extra-platforms")] if ctx.tier != "quick" else [])
        out = {"configs": [c for c, _ in cfgs], "programs": n, "diffs": [], "problems": []}
        texts = {}
        for tag, feats in cfgs:
            try: b = _build(tag, feats)
            except core.BuildError as e:
                out["problems"].append("%s: %s" % (e.what, e.log[-600:])); continue
            p = subprocess.run([b, str(ctx.seed), str(n)], capture_output=True, text=True, timeout=3000)
            if p.returncode != 0: out["problems"].append("bvf [%s] exited %s: %s" % (tag, p.returncode, p.stderr[-300:])); continue
            texts[tag] = p.stdout.splitlines()
        base = texts.get("nostd")
        for tag in texts:
            if tag == "nostd" or base is None: continue
            other = texts[tag]
            if len(other) != len(base): out["problems"].append("transcripts of nostd and %s have %d and %d lines" % (tag, len(base), len(other)))
            for a, b in zip(base, other):
                if a != b and len(out["diffs"]) < 20: out["diffs"].append({"configs": "nostd vs " + tag, "nostd": a[:600], tag: b[:600]})
        out["lines_compared"] = len(base or [])
        return out
    return core.cached("feat", [ctx.tier, ctx.seed, ctx.budget], go)

def absorb(ctx, res):
    ctx.cov["feature_sets_compared"] = res.get("configs"); ctx.cov["feature_programs"] = res.get("programs")
    ctx.cov["evaluations"] = ctx.cov.get("evaluations", 0) + res.get("lines_compared", 0) * max(1, len(res.get("configs", [])) - 1)
    for pr in res.get("problems", []): ctx.tie.append({"kind": "feature-harness", "detail": pr})
    for d in res.get("diffs", []):
        other = [k for k in d if k not in ("configs", "nostd")][0]
        ctx.failing.append({"kind": "c16-feature-dependent", "detail": "%s: the same program gives `%s` without std and `%s` with %s" % (d["configs"], d["nostd"][:300], d[other][:300], other), "case": d["nostd"].split(" ")[0] + " seed-line"})

"""C14 — comparisons/hashing depend on the bytes only.  Proof: order laws of the slice-level function (Properties/C14.v) and the
coverage obligation on the impl headers regenerated from the source (T5); per-impl equality with that function: exhaustive
correspondence (all pairs of length<=3 over 4 symbols x every impl x both orders, fully-qualified calls) + random longer."""
import os, re, core, t5_impls
PROP = "C14"
NEEDS = {"profiles": ["debug"], "modelrun": True}
RULE = ("all 85x85 pairs of byte strings of length<=3 over {00,'a',7f,ff} x 59 impl headers (PartialEq eq/ne, PartialOrd partial_cmp/lt/ge, Ord, Hash, Borrow, BorrowMut; "
        "str/String/&str partners whenever their side is UTF-8) x representations rotating over 9 Bytes / 5 BytesMut forms x both operand orders, through fully-qualified syntax; "
        "+ N random pairs (equal, prefix, one-byte difference, non-UTF-8); non-trivial = distinct (x,y) with x<>y, both non-empty")
ASSUMPTIONS = ["[u8]'s own ==/partial_cmp/Hash are lexicographic comparison / a function of the bytes (std)",
               "per-impl half is a finite exhaustive check on the stated universe, not a theorem about the Rust code"]
TRUSTED_EXTRA = ["T5: translators/t5_impls.py (regex over impl headers of bytes.rs / bytes_mut.rs) and the harness's own table (bvh cmp-table)"]
def translators(ctx, bins):
    st = t5_impls.generate(core.REPO, bins["debug"], os.path.join(core.TH, "Gen", "CmpImpls.v"))
    ctx.cov.setdefault("translators", {})["T5"] = {k: st.get(k) for k in ("ok", "source_impls", "harness_table", "uncovered", "problems")}
    for p in st["problems"]: ctx.tie.append({"kind": "translator", "detail": "T5: %s" % p})
    for u in st.get("uncovered", []): ctx.tie.append({"kind": "coverage", "detail": "impl in the source that the engine does not exercise: %s" % (u,)})
def engines(ctx, bins):
    n = ctx.scale(3000, 200000)
    ns = 8 if ctx.tier == "quick" else 16
    def go():
        jobs = [([bins["debug"], "cmp", "--seed", str(ctx.seed), "--n", str(n), "--shard", str(i), "--nshards", str(ns)], [bins["modelrun"], "cmp"]) for i in range(ns)]
        out = {"mism": [], "stats": {}, "samples": [], "impls": [], "abnormal": []}
        for (rh, rm, o, err) in core.run_pipes(jobs):
            mism, stats, samples, dist = core.parse_model_out(o)
            if rh != 0 or rm != 0: out["abnormal"].append("harness rc=%s modelrun rc=%s %s" % (rh, rm, err[-300:]))
            out["mism"] += mism; out["samples"] += samples[:1]
            for k, v in stats.items():
                if isinstance(v, int) and k != "impls_exercised": out["stats"][k] = out["stats"].get(k, 0) + v
            for l in o.splitlines():
                if l.startswith("IMPLS "): out["impls"] = sorted(set(out["impls"]) | set(l.split()[1:]))
        return out
    res = core.cached("cmp", [ctx.tier, ctx.seed, ctx.budget], go)
    ctx.add_stats(res["stats"], res["samples"])
    ctx.cov["impls_exercised"] = len(res["impls"]); ctx.cov["impl_ids"] = res["impls"][:80]
    for a in res["abnormal"]: ctx.failing.append({"kind": "abnormal-exit", "detail": a, "case": a})
    for m in res["mism"]: ctx.failing.append({"kind": m["kind"], "detail": m["detail"], "case": m["detail"].split(" :: ")[-1]})
    ctx.cov["traces_validated_against_impl"] = ctx.cov.get("evaluations", 0); ctx.cov["exhaustive"] = True
def replay(ctx, bins, payload): engines(ctx, bins)

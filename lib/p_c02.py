"""C02 — see Properties/C02.v (theorems) and eng_heap.py (engine E1)."""
import eng_heap
PROP = "C02"
NEEDS = {"profiles": ["debug", "release"], "modelrun": True}
RULE = ("seeded random histories (3..30/60 operations, up to ~8 live handles) over 45 operations of Bytes / BytesMut / Vec<u8> starting from every "
        "representation (static, Vec-backed exact/spare, owner-backed incl. panicking as_ref, BytesMut inline/shared, zero-capacity), boundary-biased arguments, "
        "in {debug, release} x {even, odd byte-buffer addresses}; this property: ledger allocator: frees with the allocation's exact layout, no double free, red zones intact, no view into freed memory; harness crash = failing input; non-trivial = history with >= 2 simultaneously live handles or a panic")
ASSUMPTIONS = ["block-memory semantics of raw pointers / Vec / Box as modelled in Heap.v", "std's Vec growth is an oracle: the observed capacity is fed to the model",
               "uninitialised-memory reads and provenance are not tracked"]
TRUSTED_EXTRA = ["ledger allocator harness/src/ledger.rs (tracked sections, quarantine, red zones)"]
DIRECT = r'^c02-|^c03-freed-while-in-use|^abnormal-exit'
def translators(ctx, bins): eng_heap.translators(ctx)
def engines(ctx, bins):
    eng_heap.absorb(ctx, eng_heap.run(ctx, bins), DIRECT)
    import eng_bufmut
    r2 = eng_bufmut.run(ctx, bins)       # fixed regions inside guard bytes, UninitSlice index/length checks
    r2f = dict(r2); r2f['mism'] = [m for m in r2['mism'] if m['kind'] in ('c11-guard', 'c11-uninit-slice') or m['kind'].startswith('model-')]
    eng_bufmut.absorb(ctx, r2f, r'^c11-guard|^c11-uninit-slice|^hang|^abnormal')
def replay(ctx, bins, payload): eng_heap.replay(ctx, bins, payload, DIRECT)

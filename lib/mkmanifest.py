#!/usr/bin/env python3
"""regenerates /verif/MANIFEST.json from the table below (keeps it valid and consistent)."""
import json, os
ROOT = os.path.dirname(os.path.dirname(os.path.abspath(__file__)))
CLAIMED = {
 "C15": dict(text="Theorems (Coq, axiom-free) for ANY per-byte escape/hex table passing a decidable check: the Debug output parses back, as a Rust byte-string literal, to exactly the contents; hex output is 2 digits per byte in order and decodes back; closed by vm_compute of the check on tables regenerated on every run by executing the current crate. The remaining gap (formatter = per-byte homomorphism of that table, serde entry points) is decided by exhaustive correspondence over all singles and pairs plus random strings on every representation.",
             ref="§5 C15, §3 M7, §4.1 T4", technique="Coq proof parametric in regenerated table + vm_compute side condition; differential execution (extracted model) for the homomorphism and serde",
             note="Trusted: Coq kernel+vm_compute, extraction (ExtrOcamlBasic), harness, T4 tabulation; lexer Fmt.lex1 as the meaning of 'valid Rust byte-string literal'; serde half is correspondence-only (model of visitors is the identity on payloads)."),
}
PENDING_REASON = "not claimed yet: check under construction in this session (design in DESIGN.md §5); will be claimed once its proof and correspondence run green"
def main():
    props = [json.loads(l)["id"] for l in open(os.path.join(ROOT, "properties.jsonl"))]
    checks, na = [], []
    for p in props:
        c = CLAIMED.get(p)
        if not c:
            na.append({"property_id": p, "reason": PENDING_REASON}); continue
        checks.append({"property_id": p, "quick_cmd": "./check %s --tier quick" % p, "thorough_cmd": "./check %s --tier thorough" % p,
                       "evidence_file": "evidence/%s.json" % p, "replay_cmd_template": "./check %s --replay {path}" % p,
                       "engine": "bvh+modelrun+coq", "level_claimed": {"category": "proof", "text": c["text"], "design_ref": c["ref"]},
                       "level_note": c["note"], "technique": c["technique"]})
    m = {"version": 1, "setup_cmd": "./check setup",
         "hooks": {"guard": "tokio_rs_bytes_verif", "enable": "RUSTFLAGS=\"--cfg tokio_rs_bytes_verif\" (set by lib/core.py when building the harness against /repo)",
                   "baseline_off_cmd": "cd /repo && cargo test --workspace --no-fail-fast --offline", "source_commits": [], "add_only": True},
         "engines": [{"name": "coq", "path": "coq/", "serves_properties": sorted(CLAIMED), "kind_free_text": "Coq 8.16.1 development: models, theorems, Properties/Cxx.v pinned statements; Gen/*.v regenerated from /repo on every run"},
                     {"name": "bvh", "path": "harness/", "serves_properties": sorted(CLAIMED), "kind_free_text": "Rust harness built against /repo's working tree: generators, runner, observers"},
                     {"name": "modelrun", "path": "extract/", "serves_properties": sorted(CLAIMED), "kind_free_text": "OCaml extracted from the Coq models + line-oriented drivers; decides predicates / replays cases"}],
         "checks": checks,
         "notes": "Five genuine defects (D1-D5) were repaired by fix: commits in /repo; see known_findings.json and DESIGN.md §6. seeded/ holds the pre-fix code as reverse patches plus independently written breaking changes.",
         "not_applicable": na}
    json.dump(m, open(os.path.join(ROOT, "MANIFEST.json"), "w"), indent=1)
if __name__ == "__main__": main()

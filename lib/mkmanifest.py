#!/usr/bin/env python3
"""regenerates /verif/MANIFEST.json from the table below (keeps it valid and consistent)."""
import json, os
ROOT = os.path.dirname(os.path.dirname(os.path.abspath(__file__)))
CLAIMED = {
 "C15": dict(text="Theorems (Coq, axiom-free) for ANY per-byte escape/hex table passing a decidable check: the Debug output parses back, as a Rust byte-string literal, to exactly the contents; hex output is 2 digits per byte in order and decodes back; closed by vm_compute of the check on tables regenerated on every run by executing the current crate. The remaining gap (formatter = per-byte homomorphism of that table, serde entry points) is decided by exhaustive correspondence over all singles and pairs plus random strings on every representation.",
             ref="§5 C15, §3 M7, §4.1 T4", technique="Coq proof parametric in regenerated table + vm_compute side condition; differential execution (extracted model) for the homomorphism and serde",
             note="Trusted: Coq kernel+vm_compute, extraction (ExtrOcamlBasic), harness, T4 tabulation; lexer Fmt.lex1 as the meaning of 'valid Rust byte-string literal'; serde half is correspondence-only (model of visitors is the identity on payloads)."),
 "C09": dict(text="Coq theorems (axiom-free) by structural induction over ARBITRARY adapter trees (any depth and fragmentation; slice, Bytes, BytesMut, Cursor, VecDeque, any law-abiding foreign Buf; Chain, Take, &mut/Box): remaining = length of the denoted sequence, chunk is a prefix that is empty only at the end, advance(k) = removal of the first k bytes inside the contract and a panic outside, chunks_vectored count/prefix/non-empty laws (parametric in Take's scratch length regenerated from the source), copy_to_slice/try_copy_to_slice/copy_to_bytes/into_iter return exactly the next bytes and never run out of fuel. The model is a branch-for-branch transliteration of the crate's methods with Rust's dispatch; it is tied to the code on every run by differential execution (extracted OCaml) on random and systematic trees, and the laws are also evaluated directly on the implementation's observations, which yields failing inputs.",
             ref="§5 C09, §3 M4, §4.2 E2", technique="Coq proof by structural induction over adapter trees + differential execution of the extracted model against the crate",
             note="Trusted: Coq kernel, extraction, harness (tree builder over the crate's own types, Inspect trait), T3 for take.rs LEN. Modelled not verified: std's VecDeque/Cursor/IoSlice. Theorems are about the model; correspondence is sampled (random + systematic), both build profiles."),
 "C10": dict(text="Coq theorem: for EVERY getter table and forwarding table passing the decidable check tables_ok (each method body, as resolved from the source by translator T3, equals the meaning of the method NAME: width, byte order, signedness), for every adapter tree and every chunking, get/try_get by name returns the decoding of exactly the next size bytes of the denoted sequence (so it is chunking-independent), advances by exactly that many, and with too few bytes panics / returns Err{requested, available} leaving the buffer unchanged; the crate's sign_extend is proved equal to two's-complement sign extension for nbytes 0..8. Closed by vm_compute of tables_ok on the tables regenerated from the current source on every run. Tie: exhaustive-style sweep (every getter x cuts x realisations x shortfalls x sign patterns) and random scripts, values compared with decode-by-name directly and with the model.",
             ref="§5 C10, §3 M4 + Codec, §4.1 T3, §4.2 E3", technique="Coq proof parametric in tables regenerated from source (T3) + vm_compute side condition; differential execution",
             note="Trusted: Coq kernel+vm_compute, extraction, T3 translator (regex reader of regular macro-call bodies; unparsed bodies are reported as a broken obligation), harness. Assumes std's from_*_bytes are the mathematical decodings, little-endian target."),
 "C12": dict(text="Coq theorems over arbitrary nestings: den(Take n b) = first n bytes, den(Chain a b) = a then b; every consuming operation (advance, copy_*, getters, iterator, Reader::read) leaves the tree `adv k b`, whose defining equations say that each Take's limit dropped by k and each inner buffer advanced by exactly the bytes that went through it (additivity and identity-at-zero proved); Reader::read transfers min(k, remaining) next bytes and never fails. Tie: after EVERY operation of every generated script the full adapter tree is read back through limit()/get_ref()/first_ref()/last_ref() and compared with the model, incl. set_limit mid-stream at any nested Take. Write half (Limit/chain_mut/Writer) is covered by the BufMut engine once M5 is claimed.",
             ref="§5 C12, §3 M4/M5, §4.2 E2/E4", technique="Coq proof (structural induction, adv equations) + differential state comparison after every operation",
             note="As C09. The write half is currently correspondence/proof via C11's machinery when present; stated in evidence."),
}
PENDING_REASON = "not claimed yet: check under construction in this session (design in DESIGN.md §5); will be claimed once its proof and correspondence run green"
def main():
    props = [json.loads(l)["id"] for l in open(os.path.join(ROOT, "properties.jsonl"))]
    checks, na = [], []
    for p in props:
        c = CLAIMED.get(p)
        if not c:
            na.append({"property_id": p, "reason": PENDING_REASON}); continue
        checks.append({"property_id": p, "quick_cmd": "./check %s --tier quick" % p, "thorough_cmd": "./check %s --tier thorough" % p,
                       "evidence_file": "evidence/%s.json" % p, "replay_cmd_template": "./check %s --replay {path}" % p,
                       "engine": "bvh+modelrun+coq", "level_claimed": {"category": "proof", "text": c["text"], "design_ref": c["ref"]},
                       "level_note": c["note"], "technique": c["technique"]})
    m = {"version": 1, "setup_cmd": "./check setup",
         "hooks": {"guard": "tokio_rs_bytes_verif", "enable": "RUSTFLAGS=\"--cfg tokio_rs_bytes_verif\" (set by lib/core.py when building the harness against /repo)",
                   "baseline_off_cmd": "cd /repo && cargo test --workspace --no-fail-fast --offline", "source_commits": [], "add_only": True},
         "engines": [{"name": "coq", "path": "coq/", "serves_properties": sorted(CLAIMED), "kind_free_text": "Coq 8.16.1 development: models, theorems, Properties/Cxx.v pinned statements; Gen/*.v regenerated from /repo on every run"},
                     {"name": "bvh", "path": "harness/", "serves_properties": sorted(CLAIMED), "kind_free_text": "Rust harness built against /repo's working tree: generators, runner, observers"},
                     {"name": "modelrun", "path": "extract/", "serves_properties": sorted(CLAIMED), "kind_free_text": "OCaml extracted from the Coq models + line-oriented drivers; decides predicates / replays cases"}],
         "checks": checks,
         "notes": "Five genuine defects (D1-D5) were repaired by fix: commits in /repo; see known_findings.json and DESIGN.md §6. seeded/ holds the pre-fix code as reverse patches plus independently written breaking changes.",
         "not_applicable": na}
    json.dump(m, open(os.path.join(ROOT, "MANIFEST.json"), "w"), indent=1)
if __name__ == "__main__": main()

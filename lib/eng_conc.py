"""Engines for the concurrency properties (C05/C06) — supporting evidence and failing-input search, never the proof:
 E6  real threads: harness `conc` (random programs on 2-4 threads x 6 representations under the ledger allocator)
 E6m Miri: harness_miri scenarios interpreted with the data-race detector / weak-memory emulation under many scheduler seeds."""
import os, re, subprocess, concurrent.futures as cf, core
MIRI_DIR = os.path.join(core.ROOT, "harness_miri")
MIRI_TARGET = os.path.join(core.ROOT, "build", "target_miri")
FIELDS = ("bad_reads", "zero_copy_owners", "alloc_violations", "leak")

def stress(ctx, bins):
    def go():
        shards = 8 if ctx.tier == "quick" else 16
        n = int((2500 if ctx.tier == "quick" else 60000) * ctx.budget)
        out = {"cases": 0, "by_rep": {}, "excl": 0, "fail": [], "abnormal": []}
        def one(i):
            cmd = [bins["release"], "conc", "--seed", str(ctx.seed * 131 + i), "--n", str(n)]
            p = subprocess.run(cmd, capture_output=True, text=True, timeout=3000)
            return cmd, p
        with cf.ThreadPoolExecutor(4) as ex:          # 4 processes x up to 4 threads each: leave cores for real contention
            for cmd, p in ex.map(one, range(shards)):
                if p.returncode != 0: out["abnormal"].append("%s: rc=%s %s" % (" ".join(cmd[1:]), p.returncode, p.stderr[-400:]))
                for l in p.stdout.splitlines():
                    if not l.startswith("X "): continue
                    f = dict(kv.split("=", 1) for kv in l.split()[1:])
                    out["cases"] += 1; out["by_rep"][f["rep"]] = out["by_rep"].get(f["rep"], 0) + 1
                    z = int(f["zero_copy_owners"]); out["excl"] += (z == 1)
                    why = []
                    if int(f["bad_reads"]): why.append("c05-wrong-bytes-or-address")
                    if z > 1: why.append("c05-two-exclusive-owners")
                    if int(f["alloc_violations"]): why.append("c05-use-after-free-or-bad-free")
                    if int(f["leak"]): why.append("c05-not-freed-after-last-handle")
                    for w in why:
                        if len(out["fail"]) < 40: out["fail"].append({"kind": w, "detail": "%s :: %s" % (" ".join(cmd[1:]), l)})
        return out
    res = core.cached("conc-stress", [ctx.tier, ctx.seed, ctx.budget], go)
    ctx.cov["evaluations"] = ctx.cov.get("evaluations", 0) + res["cases"]
    ctx.cov["distinct_nontrivial"] = ctx.cov.get("distinct_nontrivial", 0) + res["cases"]
    ctx.cov["thread_programs_run"] = res["cases"]; ctx.cov["runs_with_a_zero_copy_owner"] = res["excl"]
    ctx.cov.setdefault("distribution", {}).update(res["by_rep"])
    for a in res["abnormal"]: ctx.failing.append({"kind": "abnormal-exit", "detail": a, "case": a})
    for f in res["fail"]: ctx.failing.append({"kind": f["kind"], "detail": f["detail"], "case": f["detail"]})

MIRI_KIND = [(r"Data race detected", "c06-data-race"), (r"has been freed|dangling|use-after-free|dereferenc", "c05-use-after-free"), (r"memory leaked", "c05-not-freed-after-last-handle"),
             (r"panicked at|assertion", "c05-wrong-bytes-or-address"), (r"Undefined Behavior", "c06-undefined-behavior")]
def miri(ctx):
    """returns nothing; fills ctx.  Every (scenario, seed) is one interpreted execution of real crate code."""
    def go():
        env = dict(os.environ, CARGO_TARGET_DIR=MIRI_TARGET, CARGO_NET_OFFLINE="true", RUST_BACKTRACE="0")
        seeds = int((6 if ctx.tier == "quick" else 64) * ctx.budget)
        lo = (ctx.seed % 1000) * 100
        out = {"runs": 0, "fail": [], "scenarios": 0, "problems": []}
        lock = os.path.join(MIRI_DIR, "Cargo.lock")
        if not os.path.exists(lock) and os.path.exists(os.path.join(core.REPO, "Cargo.lock")):
            import shutil; shutil.copy(os.path.join(core.REPO, "Cargo.lock"), lock)
        b = subprocess.run(["cargo", "+nightly", "miri", "run", "--offline", "--quiet", "--", "count"], cwd=MIRI_DIR, env=env, capture_output=True, text=True, timeout=1800)
        if b.returncode != 0 or not b.stdout.strip().isdigit():
            out["problems"].append("miri build/run failed: rc=%s %s" % (b.returncode, (b.stderr or b.stdout)[-800:])); return out
        nsc = int(b.stdout.strip()); out["scenarios"] = nsc
        def one(i):
            e = dict(env, MIRIFLAGS="-Zmiri-many-seeds=%d..%d" % (lo, lo + seeds))
            p = subprocess.run(["cargo", "+nightly", "miri", "run", "--offline", "--quiet", "--", str(i)], cwd=MIRI_DIR, env=e, capture_output=True, text=True, timeout=3000)
            return i, p
        with cf.ThreadPoolExecutor(14) as ex:
            for i, p in ex.map(one, range(nsc)):
                ok = p.stdout.count("scenario %d ok" % i); out["runs"] += max(ok, 0)
                if p.returncode != 0:
                    txt = p.stderr + p.stdout
                    kind = "c06-miri-error"
                    for rx, k in MIRI_KIND:
                        if re.search(rx, txt): kind = k; break
                    m = re.search(r"(?:failing seed|seed):? (\d+)", txt[txt.find("error"):] if "error" in txt else txt)
                    errl = [l for l in txt.splitlines() if l.startswith("error") or "Data race" in l or "panicked" in l][:3]
                    out["fail"].append({"kind": kind, "detail": "miri scenario %d seeds %d..%d: %s" % (i, lo, lo + seeds, " | ".join(errl)[:600]), "log": txt[-2500:]})
        return out
    res = core.cached("conc-miri", [ctx.tier, ctx.seed, ctx.budget, core.tree_hash([os.path.join(MIRI_DIR, "src")])], go)
    ctx.cov["miri_interpreted_executions"] = res["runs"]; ctx.cov["miri_scenarios"] = res["scenarios"]
    ctx.cov["evaluations"] = ctx.cov.get("evaluations", 0) + res["runs"]
    ctx.cov["distinct_nontrivial"] = ctx.cov.get("distinct_nontrivial", 0) + res["runs"]
    for p in res["problems"]: ctx.tie.append({"kind": "engine", "detail": p})
    for f in res["fail"]: ctx.failing.append({"kind": f["kind"], "detail": f["detail"], "case": f["detail"], "log": f.get("log", "")})

"""C10 — typed reads.  Proof: Properties/C10.v (get by NAME = decode of the next bytes, any tree) closed on the getter and
forwarding tables regenerated from the source by T3; tie: E3 sweep + E2, value checked directly against decode-by-name."""
import eng_buf
PROP = "C10"
NEEDS = {"profiles": ["debug", "release"], "modelrun": True}
RULE = ("every getter of the harness list (76) x every cut of the value into <=3 pieces x 6 realisations (foreign chunks, nested chains, deque split, "
        "Take over chain, &mut, cursor) x shortfalls 0..size-1 x sign patterns (ff.., 80.., ..80, random) x nbytes 0..9; plus getters inside the random scripts; "
        "non-trivial = distinct case with an adapter/multi-chunk tree or a panic")
ASSUMPTIONS = ["from_be_bytes/from_le_bytes/from_bits of std are the mathematical decodings (Codec.dec)", "target is little-endian: *_ne = *_le",
               "floats compared as bit patterns"]
TRUSTED_EXTRA = ["T3: translators/t3_tables.py resolves each getter body (macro arm, byte order, type, sign_extend/from_bits/ne dispatch) and the deref_forward_buf! targets"]
DIRECT = r"^c10-"
def translators(ctx, bins):
    st = eng_buf.translators(ctx, bins)
    # coverage obligation: every getter T3 found in the trait is one the harness can call
    import re, os, core
    src = open(os.path.join(core.ROOT, "harness", "src", "e_buf.rs")).read()
    known = set(re.findall(r'"((?:try_)?get_\w+)"', src))
    gen = open(os.path.join(core.TH, "Gen", "GetPut.v")).read()
    names = set(re.findall(r'\("((?:try_)?get_\w+)", \{\|', gen))
    missing = sorted(names - known)
    if missing: ctx.tie.append({"kind": "coverage", "detail": "getters present in the source but unknown to the harness (not exercised): %s" % missing})
def engines(ctx, bins): eng_buf.absorb(ctx, eng_buf.run(ctx, bins), DIRECT)
def replay(ctx, bins, payload): eng_buf.replay(ctx, bins, payload, DIRECT)

"""shared run of engine E4 (random BufMut target trees x write scripts; every putter x target kinds x fill levels) for C11 / C12 (write half)"""
import os, re, core, t3_tables
def run(ctx, bins):
    tier, seed, budget = ctx.tier, ctx.seed, ctx.budget
    def go():
        shards = 4 if tier == "quick" else 16
        n_rand = int((12000 if tier == "quick" else 120000) * budget)
        reps = int((1 if tier == "quick" else 5) * budget)
        depth = 3 if tier == "quick" else 4
        jobs = []
        for prof in [p for p in ("debug", "release") if p in bins]:
            for i in range(shards):
                jobs.append(([bins[prof], "bufmut-random", "--seed", str(seed * 1000 + i), "--n", str(n_rand), "--depth", str(depth + (i % 2))], [bins["modelrun"], "bufmut"]))
            for i in range(max(1, shards // 4)):
                jobs.append(([bins[prof], "bufmut-codec", "--seed", str(seed * 1000 + 500 + i), "--n", str(max(1, reps))], [bins["modelrun"], "bufmut"]))
        out = {"mism": [], "stats": {}, "samples": [], "dist": {}, "abnormal": []}
        for (rh, rm, o, err), job in zip(core.run_pipes(jobs, timeout=1500), jobs):
            mism, stats, samples, dist = core.parse_model_out(o)
            if rh != 0 or rm != 0: out["abnormal"].append("%s: harness rc=%s modelrun rc=%s %s" % (" ".join(job[0][1:]), rh, rm, err[-600:]))
            out["mism"] += mism; out["samples"] += samples[:2]
            for k, v in stats.items():
                if isinstance(v, int): out["stats"][k] = out["stats"].get(k, 0) + v
            for k, v in dist.items(): out["dist"][k] = out["dist"].get(k, 0) + v
        return out
    return core.cached("bufmut", [tier, seed, budget, sorted(bins)], go)
def absorb(ctx, res, direct_re):
    ctx.add_stats(res["stats"], res["samples"], res["dist"])
    for a in res["abnormal"]:
        kind = "hang" if "HANG" in a else "abnormal-exit"
        ctx.failing.append({"kind": kind, "detail": a, "case": a.split("HANG case did not return within 10 s: ")[-1].strip()})
    for m in res["mism"]:
        rec = {"kind": m["kind"], "detail": m["detail"], "case": m["detail"].split(" :: ")[-1]}
        if re.search(direct_re, m["kind"]): ctx.failing.append(rec)
        elif m["kind"].startswith("model-"): ctx.diffs.append(rec)
    ctx.cov["traces_validated_against_impl"] = ctx.cov.get("evaluations", 0)
def replay(ctx, bins, payload, direct_re):
    import subprocess
    case = payload.get("case") or ""
    p = subprocess.run([bins["debug"], "bufmut-replay"], input=case + "\n", capture_output=True, text=True, timeout=60)
    q = subprocess.run([bins["modelrun"], "bufmut"], input=p.stdout, capture_output=True, text=True, timeout=60)
    print(p.stdout.strip()); print(q.stdout.strip())
    mism, stats, samples, dist = core.parse_model_out(q.stdout)
    absorb(ctx, {"mism": mism, "stats": stats, "samples": samples, "dist": dist, "abnormal": []}, direct_re)

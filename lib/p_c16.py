"""C16 — configuration independence: same seeded histories in {debug, release} x {even, odd}; every configuration must agree with the
configuration-free value model M1 step by step and the per-history digests (ops, outcomes, returns, lengths, contents) must coincide."""
import eng_heap, eng_buf
PROP = "C16"
NEEDS = {"profiles": ["debug", "release"], "modelrun": True}
RULE = ("the E1 histories of C01/C04/C13 and the E2/E3 Buf scripts of C10 run with identical seeds in debug/even, debug/odd, release/even, release/odd; "
        "digest per history over (operation, outcome class, return value, id/kind/len/contents of every live handle); non-trivial = history with >= 2 live handles or a panic")
ASSUMPTIONS = ["feature sets (no-default-features, extra-platforms) are compile-time selections outside the model: exercised by correspondence in the thorough tier only"]
TRUSTED_EXTRA = []
DIRECT = r"^c16-|^c01-|^c13-(missing|unexpected)"
def translators(ctx, bins):
    eng_buf.translators(ctx, bins)
    eng_heap.translators(ctx)
def engines(ctx, bins):
    res = eng_heap.run(ctx, bins)
    eng_heap.absorb(ctx, res, DIRECT)
    for d in res.get("c16", []): ctx.failing.append({"kind": "c16-digest", "detail": d, "case": d})
    ctx.cov["digests_compared"] = res.get("digest_count", 0)
    r2 = eng_buf.run(ctx, bins)        # getters in both profiles (D3-type differences)
    eng_buf.absorb(ctx, r2, r"^c10-")
def replay(ctx, bins, payload): eng_heap.replay(ctx, bins, payload, DIRECT)

"""C16 — configuration independence: same seeded histories in {debug, release} x {even, odd}; every configuration must agree with the
configuration-free value model M1 step by step and the per-history digests (ops, outcomes, returns, lengths, contents) must coincide."""
import eng_heap, eng_buf, eng_feat
PROP = "C16"
NEEDS = {"profiles": ["debug", "release"], "modelrun": True}
RULE = ("the E1 histories of C01/C04/C13 and the E2/E3 Buf scripts of C10 run with identical seeds in debug/even, debug/odd, release/even, release/odd; "
        "digest per history over (operation, outcome class, return value, id/kind/len/contents of every live handle); non-trivial = history with >= 2 live handles or a panic")
ASSUMPTIONS = ["feature sets are compile-time selections outside the Coq models: decided by differential execution (engine E9: builds without std, with std, thorough tier also with extra-platforms; identical seeded programs over the feature-independent API; transcripts compared line by line)"]
TRUSTED_EXTRA = []
DIRECT = r"^c16-|^c01-|^c13-(missing|unexpected)"
def translators(ctx, bins):
    eng_buf.translators(ctx, bins)
    eng_heap.translators(ctx)
def engines(ctx, bins):
    res = eng_heap.run(ctx, bins)
    eng_heap.absorb(ctx, res, DIRECT)
    for d in res.get("c16", []): ctx.failing.append({"kind": "c16-digest", "detail": d, "case": d})
    ctx.cov["digests_compared"] = res.get("digest_count", 0)
    r2 = eng_buf.run(ctx, bins)        # the Buf scripts (cursor laws, copies, getters, adapters) in both profiles with the same seeds
    eng_buf.absorb(ctx, r2, r"^c10-")
    # profile dependence of ANY Buf observable: a deviation from the model that one profile shows and the other does not (same seeds, same scripts)
    by = {"debug": set(), "release": set()}
    for m in r2["mism"]:
        if m.get("prof") in by and not m["kind"].startswith("c10-"): by[m["prof"]].add((m["kind"], m["detail"]))
    for prof, other in (("release", "debug"), ("debug", "release")):
        for kind, detail in sorted(by[prof] - by[other])[:20]:
            rec = {"kind": "c16-profile-dependent", "detail": "[%s only] %s: %s" % (prof, kind, detail), "case": detail.split(" :: ")[-1]}
            ctx.failing.append(rec)
    ctx.cov["buf_mismatches_by_profile"] = {k: len(v) for k, v in by.items()}
    eng_feat.absorb(ctx, eng_feat.run(ctx))        # feature sets: no-std vs std (thorough: + extra-platforms), transcripts must be identical
def replay(ctx, bins, payload):
    if (payload.get("mismatch") or "").startswith("c16-profile"):
        import subprocess
        outs = {}
        for prof in ("debug", "release"):
            p = subprocess.run([bins[prof], "buf-replay"], input=(payload.get("case") or "") + "\n", capture_output=True, text=True, timeout=60)
            outs[prof] = p.stdout.strip(); print("[%s] %s" % (prof, outs[prof]))
        if outs["debug"] != outs["release"]:
            ctx.failing.append({"kind": "c16-profile-dependent", "detail": "debug: %s | release: %s" % (outs["debug"][:300], outs["release"][:300]), "case": payload.get("case")})
        return
    if (payload.get("mismatch") or "").startswith("c16-feature"):
        eng_feat.absorb(ctx, eng_feat.run(ctx)); return
    eng_heap.replay(ctx, bins, payload, DIRECT)

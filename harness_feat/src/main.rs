//! E9: feature-set differential.  The same seeded programs over the part of the API that exists in every feature set
//! (Buf / BufMut core methods, adapters, Bytes / BytesMut operations) are executed by builds of this crate with and without
//! `std` (and with `extra-platforms`); the transcripts must be identical line by line (C16).  No model is involved.
use bytes::{Buf, BufMut, Bytes, BytesMut};
use std::fmt::Write as _;
use std::panic::{catch_unwind, AssertUnwindSafe};

struct Rng(u64);
impl Rng {
    fn next(&mut self) -> u64 { self.0 ^= self.0 << 13; self.0 ^= self.0 >> 7; self.0 ^= self.0 << 17; self.0 }
    fn below(&mut self, n: u64) -> u64 { if n == 0 { 0 } else { self.next() % n } }
    fn bytes(&mut self, n: usize) -> Vec<u8> { (0..n).map(|_| match self.below(6) { 0 => 0xff, 1 => 0x80, 2 => 0, _ => self.next() as u8 }).collect() }
}
fn hx(b: &[u8]) -> String { if b.is_empty() { "-".into() } else { let mut s = String::new(); for x in b { write!(s, "{:02x}", x).unwrap(); } s } }

/// a foreign multi-chunk Buf that implements only the required methods
struct Rope { cs: Vec<Vec<u8>>, i: usize, o: usize }
impl Rope { fn new(cs: Vec<Vec<u8>>) -> Rope { let mut r = Rope { cs, i: 0, o: 0 }; r.skip(); r } fn skip(&mut self) { while self.i < self.cs.len() && self.o >= self.cs[self.i].len() { self.i += 1; self.o = 0; } } }
impl Buf for Rope {
    fn remaining(&self) -> usize { let mut n = 0; for (j, c) in self.cs.iter().enumerate() { if j > self.i { n += c.len() } else if j == self.i { n += c.len() - self.o } } n }
    fn chunk(&self) -> &[u8] { if self.i < self.cs.len() { &self.cs[self.i][self.o..] } else { &[] } }
    fn advance(&mut self, mut cnt: usize) { assert!(cnt <= self.remaining(), "advance past the end"); while cnt > 0 { let l = self.cs[self.i].len() - self.o; let k = l.min(cnt); self.o += k; cnt -= k; self.skip(); } self.skip(); }
}
fn rope(rng: &mut Rng, d: &[u8]) -> Rope { let mut cs = vec![]; let mut i = 0; while i < d.len() { if rng.below(5) == 0 { cs.push(vec![]) } let k = 1 + rng.below((d.len() - i).min(5) as u64) as usize; cs.push(d[i..i + k].to_vec()); i += k; } Rope::new(cs) }

fn source(rng: &mut Rng, d: &[u8], depth: u32) -> Box<dyn Buf> {
    if depth == 0 || rng.below(4) == 0 {
        return match rng.below(4) { 0 => Box::new(Bytes::copy_from_slice(d)), 1 => Box::new(BytesMut::from(d)), 2 => Box::new(rope(rng, d)), _ => Box::new(std::io::Cursor::new(d.to_vec()).into_inner().into_iter().collect::<Bytes>()) };
    }
    match rng.below(4) {
        0 | 1 => { let k = rng.below(d.len() as u64 + 1) as usize; let a = source(rng, &d[..k], depth - 1); let b = source(rng, &d[k..], depth - 1); Box::new(a.chain(b)) }
        2 => { let extra = rng.below(4) as usize; let mut v = d.to_vec(); let ex = rng.bytes(extra); v.extend(ex); let inner = source(rng, &v, depth - 1); Box::new(inner.take(d.len())) }
        _ => Box::new(source(rng, d, depth - 1)),
    }
}
fn obs(b: &dyn Buf) -> String { format!("r{}c{}", b.remaining(), hx(&b.chunk()[..b.chunk().len().min(4)])) }
fn guarded<T>(f: impl FnOnce() -> T) -> Option<T> { catch_unwind(AssertUnwindSafe(f)).ok() }

fn buf_case(rng: &mut Rng, out: &mut String) {
    let len = match rng.below(8) { 0 => 0, 1 | 2 => 13 + rng.below(30) as usize, _ => 1 + rng.below(12) as usize };
    let d = rng.bytes(len); let depth = rng.below(4) as u32;
    let mut b = source(rng, &d, depth);
    write!(out, "B {} {}", hx(&d), obs(&*b)).unwrap();
    for _ in 0..1 + rng.below(7) {
        let left = b.remaining();
        let k = match rng.below(10) { 0 => 0, 1 => left, 2 => left + 1, _ => rng.below(left as u64 + 1) as usize };
        let r = match rng.below(14) {
            0 => guarded(|| { b.advance(k); format!("adv{}", k) }),
            1 => guarded(|| { let mut v = vec![0u8; k]; b.copy_to_slice(&mut v); format!("cts{}={}", k, hx(&v)) }),
            2 => guarded(|| { let mut v = vec![0u8; k]; let r = b.try_copy_to_slice(&mut v); format!("tcs{}={}/{}", k, r.is_ok(), hx(&v)) }),
            3 | 4 => guarded(|| { let r = b.copy_to_bytes(k); format!("ctb{}={}", k, hx(&r)) }),
            5 => guarded(|| format!("u8={}", b.get_u8())),
            6 => guarded(|| format!("u16={}", b.get_u16())),
            7 => guarded(|| format!("u32le={}", b.get_u32_le())),
            8 => guarded(|| format!("i64={}", b.get_i64())),
            9 => { let nb = rng.below(10) as usize; guarded(|| format!("uint{}={}", nb, b.get_uint(nb))) }
            10 => { let nb = rng.below(10) as usize; guarded(|| format!("intle{}={}", nb, b.get_int_le(nb))) }
            11 => guarded(|| format!("tu64={:?}", b.try_get_u64().ok())),
            12 => { let nb = rng.below(10) as usize; guarded(|| format!("tint{}={:?}", nb, b.try_get_int(nb).ok())) }
            _ => guarded(|| format!("f32={:?}", b.get_f32().to_bits())),
        };
        match r { Some(s) => write!(out, " {}@{}", s, obs(&*b)).unwrap(), None => { write!(out, " panic").unwrap(); break; } }
    }
    out.push('\n');
}

fn put_case(rng: &mut Rng, out: &mut String) {
    let len = rng.below(24) as usize; let d = rng.bytes(len);
    let kind = rng.below(6);
    let mut fixed = [0u8; 40]; let mut fixed2 = [0u8; 7];
    let mut v: Vec<u8> = Vec::new(); let mut m = BytesMut::with_capacity(rng.below(9) as usize);
    if rng.below(3) == 0 { m.put_slice(&[9, 9, 9]); let _ = m.split_to(2); }
    write!(out, "P k{} {}", kind, hx(&d)).unwrap();
    let depth = rng.below(3) as u32;
    let r = guarded(|| {
        let mut s = String::new();
        macro_rules! run { ($t:expr) => {{ let t = $t; for _ in 0..1 + rng.below(4) {
            match rng.below(6) {
                0 => { let src = source(rng, &d, depth); t.put(src); s.push_str(" put"); }
                1 => { t.put_slice(&d); s.push_str(" ps"); }
                2 => { let k = rng.below(12) as usize; t.put_bytes(7, k); write!(s, " pb{}", k).unwrap(); }
                3 => { t.put_u32_le(0xdead_beef); s.push_str(" u32"); }
                4 => { let nb = rng.below(9) as usize; t.put_int(-2, nb); write!(s, " int{}", nb).unwrap(); }
                _ => { let src = rope(rng, &d); t.put(src.take(len / 2)); s.push_str(" putrope"); }
            }
            write!(s, "/{}", t.remaining_mut().min(99)).unwrap(); } }} }
        match kind {
            0 => run!(&mut v), 1 => run!(&mut m), 2 => run!(&mut &mut fixed[..]), 3 => run!(&mut (&mut fixed[..]).limit(rng.below(30) as usize)),
            4 => run!(&mut (&mut fixed2[..]).chain_mut(&mut v)), _ => run!(&mut (&mut m).limit(rng.below(40) as usize)),
        }
        s
    });
    match r { Some(s) => write!(out, "{} => v={} m={} f={} f2={}", s, hx(&v), hx(&m), hx(&fixed), hx(&fixed2)).unwrap(), None => write!(out, " panic v={} m={} f={}", hx(&v), hx(&m), hx(&fixed)).unwrap() }
    out.push('\n');
}

fn heap_case(rng: &mut Rng, out: &mut String) {
    let mut bs: Vec<Bytes> = vec![]; let mut ms: Vec<BytesMut> = vec![];
    let nd = 1 + rng.below(40) as usize; let d = rng.bytes(nd); ms.push(BytesMut::from(&d[..])); bs.push(Bytes::from(d.clone()));
    write!(out, "H {}", hx(&d)).unwrap();
    for _ in 0..2 + rng.below(10) {
        let r = guarded(|| {
            let mut s = String::new();
            if rng.below(2) == 0 && !bs.is_empty() {
                let i = rng.below(bs.len() as u64) as usize; let l = bs[i].len(); let k = if rng.below(8) == 0 { l + 1 } else { rng.below(l as u64 + 1) as usize };
                match rng.below(9) {
                    0 => { let c = bs[i].clone(); bs.push(c); s.push_str("bclone") }
                    1 => { let c = bs[i].slice(k / 2..k); bs.push(c); write!(s, "bslice{}", k).unwrap() }
                    2 => { let c = bs[i].split_off(k); bs.push(c); write!(s, "bso{}", k).unwrap() }
                    3 => { let c = bs[i].split_to(k); bs.push(c); write!(s, "bst{}", k).unwrap() }
                    4 => { bs[i].truncate(k); write!(s, "btr{}", k).unwrap() }
                    5 => { bs[i].advance(k); write!(s, "badv{}", k).unwrap() }
                    6 => { let b = bs.swap_remove(i); ms.push(BytesMut::from(b)); s.push_str("binto") }
                    7 => { let b = bs.swap_remove(i); let u = b.is_unique(); match b.try_into_mut() { Ok(m) => ms.push(m), Err(b) => bs.push(b) } write!(s, "btry{}", u).unwrap() }
                    _ => { let b = bs.swap_remove(i); let v: Vec<u8> = b.into(); write!(s, "bvec{}", hx(&v)).unwrap() }
                }
            } else if !ms.is_empty() {
                let i = rng.below(ms.len() as u64) as usize; let l = ms[i].len(); let k = if rng.below(8) == 0 { ms[i].capacity() + 1 } else { rng.below(l as u64 + 1) as usize };
                match rng.below(11) {
                    0 => { let c = ms[i].split_off(k); ms.push(c); write!(s, "mso{}", k).unwrap() }
                    1 => { let c = ms[i].split_to(k); ms.push(c); write!(s, "mst{}", k).unwrap() }
                    2 => { let c = ms[i].split(); ms.push(c); s.push_str("msplit") }
                    3 => { ms[i].truncate(k); write!(s, "mtr{}", k).unwrap() }
                    4 => { ms[i].advance(k); write!(s, "madv{}", k).unwrap() }
                    5 => { let ne = rng.below(30) as usize; let e = rng.bytes(ne); ms[i].extend_from_slice(&e); write!(s, "mext{}", e.len()).unwrap() }
                    6 => { ms[i].reserve(k * 3); write!(s, "mres{}", k * 3).unwrap() }
                    7 => { ms[i].resize(k + 3, 5); write!(s, "mrsz{}", k + 3).unwrap() }
                    8 => { let m = ms.swap_remove(i); bs.push(m.freeze()); s.push_str("mfreeze") }
                    9 => { if ms.len() >= 2 { let o = ms.swap_remove((i + 1) % ms.len()); let j = i.min(ms.len() - 1); ms[j].unsplit(o); s.push_str("munsplit") } }
                    _ => { let ne = rng.below(9) as usize; let e = rng.bytes(ne); ms[i].extend(e.iter().copied()); write!(s, "mexti{}", e.len()).unwrap() }
                }
            }
            s
        });
        match r { Some(s) => write!(out, " {}", s).unwrap(), None => write!(out, " panic").unwrap() }
        write!(out, "[").unwrap();
        for b in &bs { write!(out, "b{},", hx(b)).unwrap(); } for m in &ms { write!(out, "m{},", hx(m)).unwrap(); }
        write!(out, "]").unwrap();
    }
    out.push('\n');
}

fn main() {
    std::panic::set_hook(Box::new(|_| {}));
    let a: Vec<String> = std::env::args().collect();
    let seed: u64 = a.get(1).and_then(|s| s.parse().ok()).unwrap_or(1); let n: usize = a.get(2).and_then(|s| s.parse().ok()).unwrap_or(1000);
    let mut rng = Rng(seed.wrapping_mul(0x9E37_79B9_7F4A_7C15) | 1);
    let mut out = String::new();
    for i in 0..n { match i % 3 { 0 => buf_case(&mut rng, &mut out), 1 => put_case(&mut rng, &mut out), _ => heap_case(&mut rng, &mut out) } if out.len() > 1 << 16 { print!("{}", out); out.clear(); } }
    print!("{}", out);
}

//! Engine E1 (implementation side): histories of safe operations on sets of Bytes / BytesMut / Vec<u8> handles on the real
//! crate under the ledger allocator.  Per step: outcome, return value, allocator/owner events, and for every live handle
//! (kind, ledger block, offset, len, cap, contents, is_unique); red zones; at the end all survivors are dropped in a seeded
//! order and the ledger must be empty.
//! Line:  E1 odd=<0|1> <op>=<ok|panic>|<ret>|<events>|<state> ... end=...
use crate::ledger::{self, tr, untracked, Ev};
use crate::rng::Rng;
use std::sync::atomic::{AtomicBool, Ordering as AO};
/// big mode: buffers of 1 KiB .. 128 KiB (scale-dependent code paths: original-capacity classes, large offsets, reclaim thresholds)
pub static BIG: AtomicBool = AtomicBool::new(false);
use bytes::{Buf, Bytes, BytesMut};
use std::io::Write;
use std::panic::{catch_unwind, AssertUnwindSafe};

pub enum H { B(Bytes), M(BytesMut), V(Vec<u8>) }
struct Own { data: Vec<u8>, id: u32, panics: bool }
impl AsRef<[u8]> for Own { fn as_ref(&self) -> &[u8] { ledger::note_owner(true, self.id); if self.panics { panic!("as_ref refuses") } &self.data } }
impl Drop for Own { fn drop(&mut self) { ledger::note_owner(false, self.id); } }

/// `z<seed>x<len>`: a long pattern (the model driver regenerates it); otherwise hex
fn unhx(s: &str) -> Vec<u8> {
    if let Some(rest) = s.strip_prefix('z') { let (a, b) = rest.split_once('x').unwrap(); let (seed, len): (usize, usize) = (a.parse().unwrap(), b.parse().unwrap()); return (0..len).map(|i| zbyte(seed, i)).collect(); }
    crate::e_buf::unhx(s)
}
pub fn zbyte(seed: usize, i: usize) -> u8 { (seed.wrapping_add(i.wrapping_mul(131)).wrapping_add((i / 251).wrapping_mul(17)) & 0xff) as u8 }
/// contents of a handle: hex up to 96 bytes, beyond that length and FNV-1a 64 of the bytes (the model driver prints the same form)
fn hex(bs: &[u8]) -> String {
    if bs.len() <= 96 { return crate::rng::hex(bs); }
    let mut h: u64 = 0xcbf29ce484222325; for b in bs { h ^= *b as u64; h = h.wrapping_mul(0x100000001b3); }
    format!("#{}_{:016x}", bs.len(), h)
}
fn loc(p: *const u8) -> String {
    match ledger::locate(p as usize) { Some((id, ofs, live, kind)) => format!("{}{}{}:{}", if kind == 2 { "s" } else { "" }, id, if live { "" } else { "!dead" }, ofs), None => if (p as usize) < 4096 { "d:0".into() } else { "x:0".into() } }
}
fn dump(hs: &[Option<H>], o: &mut String) {
    let mut first = true;
    for (i, h) in hs.iter().enumerate() {
        if let Some(h) = h {
            if !first { o.push(',') } first = false;
            match h {
                H::B(b) => o.push_str(&format!("{}:B:{}:{}:-:{}:{}", i, loc(b.as_ptr()), b.len(), hex(b), b.is_unique() as u8)),
                H::M(m) => o.push_str(&format!("{}:M:{}:{}:{}:{}:-", i, loc(m.as_ptr()), m.len(), m.capacity(), hex(m))),
                H::V(v) => o.push_str(&format!("{}:V:{}:{}:{}:{}:-", i, loc(v.as_ptr()), v.len(), v.capacity(), hex(v))),
            }
        }
    }
    if first { o.push('~') }
}
fn events(o: &mut String) {
    let evs = ledger::take_events();
    if evs.is_empty() { o.push('~') }
    for (i, e) in evs.iter().enumerate() {
        if i > 0 { o.push(',') }
        match e {
            Ev::Alloc(id, sz) => o.push_str(&format!("a{}:{}", id, sz)),
            Ev::Free(id, sz, lsz, lal) => { o.push_str(&format!("f{}:{}", id, sz)); if lsz != sz || *lal != 1 { o.push_str(&format!("!layout({}/{})", lsz, lal)) } }
            Ev::Realloc(a, b, sz) => o.push_str(&format!("r{}:{}:{}", a, b, sz)),
            Ev::AllocCtrl => o.push_str("ac"), Ev::FreeCtrl => o.push_str("fc"),
            Ev::DoubleFree(id) => o.push_str(&format!("f{}:0!double", id)), Ev::DoubleFreeCtrl => o.push_str("fc!double"), Ev::BadLayoutCtrl => o.push_str("fc!layout"),
            Ev::OwnerAsRef(i) => o.push_str(&format!("oa{}", i)), Ev::OwnerDrop(i) => o.push_str(&format!("od{}", i)),
        }
    }
}
enum Ret { Unit, Bool(bool), New(H), Err }
struct St { hs: Vec<Option<H>>, next_owner: u32 }
impl St {
    fn b(&mut self, i: usize) -> &mut Bytes { match self.hs[i].as_mut() { Some(H::B(b)) => b, _ => panic!("harness: not a Bytes") } }
    fn m(&mut self, i: usize) -> &mut BytesMut { match self.hs[i].as_mut() { Some(H::M(b)) => b, _ => panic!("harness: not a BytesMut") } }
    fn take(&mut self, i: usize) -> H { self.hs[i].take().expect("harness: dead handle") }
}
fn exec(st: &mut St, f: &[&str], op: &str) -> Ret {
    let n = |i: usize| -> usize { f[i].parse::<usize>().unwrap() };
    match f[0] {
        "bnew" => Ret::New(H::B(Bytes::new())),
        "bstatic" => { let d = untracked(|| { let d: &'static [u8] = Box::leak(unhx(f[1]).into_boxed_slice()); if !d.is_empty() { ledger::register_static(d.as_ptr(), d.len()); } d }); Ret::New(H::B(Bytes::from_static(d))) }
        "bfv" => { let d = untracked(|| unhx(f[1])); let cap = n(2).max(d.len()); let mut v = Vec::with_capacity(cap); v.extend_from_slice(&d); Ret::New(H::B(Bytes::from(v))) }
        "bowner" => { let d = untracked(|| unhx(f[1])); let id = st.next_owner; st.next_owner += 1; let mut data = Vec::with_capacity(d.len()); data.extend_from_slice(&d);
                      Ret::New(H::B(Bytes::from_owner(Own { data, id, panics: f[2] == "1" }))) }
        "mnew" => Ret::New(H::M(BytesMut::new())),
        "mcap" => Ret::New(H::M(BytesMut::with_capacity(n(1)))),
        "mzero" => Ret::New(H::M(BytesMut::zeroed(n(1)))),
        "mslice" => { let d = untracked(|| unhx(f[1])); Ret::New(H::M(BytesMut::from(&d[..]))) }
        "bclone" => { let c = st.b(n(1)).clone(); Ret::New(H::B(c)) }
        "bslice" => { let c = st.b(n(1)).slice(n(2)..n(3)); Ret::New(H::B(c)) }
        "bslicei" => { let c = st.b(n(1)).slice(n(2)..=n(3)); Ret::New(H::B(c)) }
        "bsliceref" => { let b = st.b(n(1));
            if f[2] == "x" { let foreign = untracked(|| vec![1u8, 2, 3]); let c = b.slice_ref(&foreign[..]); Ret::New(H::B(c)) }
            else { let (o, l) = (n(2), n(3)); let sub: &[u8] = if l == 0 { &b""[..] } else { unsafe { std::slice::from_raw_parts(b.as_ptr().add(o), l) } }; let c = b.slice_ref(sub); Ret::New(H::B(c)) } }
        "bsplitoff" => { let c = st.b(n(1)).split_off(n(2)); Ret::New(H::B(c)) }
        "bsplitto" => { let c = st.b(n(1)).split_to(n(2)); Ret::New(H::B(c)) }
        "bctb" => { let c = bytes::Buf::copy_to_bytes(st.b(n(1)), n(2)); Ret::New(H::B(c)) }   // Buf::copy_to_bytes of a Bytes: documented as split_to
        "btrunc" => { st.b(n(1)).truncate(n(2)); Ret::Unit }
        "bclear" => { st.b(n(1)).clear(); Ret::Unit }
        "badv" => { st.b(n(1)).advance(n(2)); Ret::Unit }
        "buniq" => Ret::Bool(st.b(n(1)).is_unique()),
        "btryinto" => { let i = n(1); match st.take(i) { H::B(b) => match b.try_into_mut() { Ok(m) => Ret::New(H::M(m)), Err(b) => { st.hs[i] = Some(H::B(b)); Ret::Err } }, _ => panic!("harness") } }
        "binto" => { match st.take(n(1)) { H::B(b) => Ret::New(H::M(BytesMut::from(b))), _ => panic!("harness") } }
        "bvec" => { match st.take(n(1)) { H::B(b) => Ret::New(H::V(Vec::from(b))), _ => panic!("harness") } }
        "bdrop" | "mdrop" | "vdrop" => { drop(st.take(n(1))); Ret::Unit }
        "msplitoff" => { let c = st.m(n(1)).split_off(n(2)); Ret::New(H::M(c)) }
        "msplitto" => { let c = st.m(n(1)).split_to(n(2)); Ret::New(H::M(c)) }
        "msplit" => { let c = st.m(n(1)).split(); Ret::New(H::M(c)) }
        "mtrunc" => { st.m(n(1)).truncate(n(2)); Ret::Unit }
        "mclear" => { st.m(n(1)).clear(); Ret::Unit }
        "mresize" => { st.m(n(1)).resize(n(2), n(3) as u8); Ret::Unit }
        "mreserve" => { st.m(n(1)).reserve(n(2)); Ret::Unit }
        "mreclaim" => Ret::Bool(st.m(n(1)).try_reclaim(n(2))),
        "mext" => { let d = untracked(|| unhx(f[2])); st.m(n(1)).extend_from_slice(&d); Ret::Unit }
        "mexti" => { let d = untracked(|| unhx(f[2])); let hint = n(3); struct It { d: Vec<u8>, i: usize, hint: usize } impl Iterator for It { type Item = u8; fn next(&mut self) -> Option<u8> { let r = self.d.get(self.i).copied(); self.i += 1; r } fn size_hint(&self) -> (usize, Option<usize>) { (self.hint, None) } }
                     st.m(n(1)).extend(It { d, i: 0, hint }); Ret::Unit }
        "mwrite" => { let i = n(2); st.m(n(1))[i] = n(3) as u8; Ret::Unit }
        "munsplit" => { let o = match st.take(n(2)) { H::M(m) => m, _ => panic!("harness") }; st.m(n(1)).unsplit(o); Ret::Unit }
        "mfreeze" => { match st.take(n(1)) { H::M(m) => Ret::New(H::B(m.freeze())), _ => panic!("harness") } }
        "mvec" => { match st.take(n(1)) { H::M(m) => Ret::New(H::V(Vec::from(m))), _ => panic!("harness") } }
        "madv" => { st.m(n(1)).advance(n(2)); Ret::Unit }
        "mclone" => { let c = st.m(n(1)).clone(); Ret::New(H::M(c)) }
        "vbytes" => { match st.take(n(1)) { H::V(v) => Ret::New(H::B(Bytes::from(v))), _ => panic!("harness") } }
        // ---- further public entry points; the model driver maps each to the operation(s) the source defines it by (run_heap.ml: expand) ----
        "bcopy" => { let d = untracked(|| unhx(f[1])); Ret::New(H::B(Bytes::copy_from_slice(&d))) }
        "bfbox" => { let d = untracked(|| unhx(f[1])); let b: Box<[u8]> = Box::from(&d[..]); Ret::New(H::B(Bytes::from(b))) }
        "bfstr" => { let d = untracked(|| String::from_utf8(unhx(f[1])).expect("harness: ascii")); let cap = n(2).max(d.len()); let mut s2 = String::with_capacity(cap); s2.push_str(&d); Ret::New(H::B(Bytes::from(s2))) }
        "bfiter" => { let d = untracked(|| unhx(f[1])); Ret::New(H::B(d.iter().copied().collect::<Bytes>())) }
        "mfiter" => { let d = untracked(|| unhx(f[1])); Ret::New(H::M(if f[2] == "1" { d.iter().collect::<BytesMut>() } else { d.iter().copied().collect::<BytesMut>() })) }
        "mfstr" => { let d = untracked(|| String::from_utf8(unhx(f[1])).expect("harness: ascii")); Ret::New(H::M(BytesMut::from(&d[..]))) }
        "mextb" => { let chunks: Vec<Bytes> = untracked(|| if f[2] == "~" { vec![] } else { f[2].split(',').map(|c| Bytes::from_static(Box::leak(unhx(c).into_boxed_slice()))).collect() });
                     st.m(n(1)).extend(chunks.iter().cloned()); untracked(|| drop(chunks)); Ret::Unit }
        "mextr" => { let d = untracked(|| unhx(f[2])); st.m(n(1)).extend(d.iter()); Ret::Unit }
        "mput" => { let d = untracked(|| unhx(f[2])); bytes::BufMut::put_slice(st.m(n(1)), &d); Ret::Unit }
        "mputb" => { bytes::BufMut::put_bytes(st.m(n(1)), n(2) as u8, n(3)); Ret::Unit }
        "mfmt" => { let d = untracked(|| String::from_utf8(unhx(f[2])).expect("harness: ascii")); let r = std::fmt::Write::write_str(st.m(n(1)), &d); Ret::Bool(r.is_ok()) }
        "msetlen" => { let m = st.m(n(1)); if n(2) > m.len() { panic!("harness: set_len beyond the initialised part") } unsafe { m.set_len(n(2)) }; Ret::Unit }
        "mspare" => { let d = untracked(|| unhx(f[2])); let m = st.m(n(1)); let len = m.len(); let sp = m.spare_capacity_mut(); if d.len() > sp.len() { panic!("harness: spare too small") }
                      for (i, b) in d.iter().enumerate() { sp[i].write(*b); } unsafe { m.set_len(len + d.len()) }; Ret::Unit }
        "mctb" => { let c = bytes::Buf::copy_to_bytes(st.m(n(1)), n(2)); st.hs.push(None); Ret::New(H::B(c)) }   // BytesMut: split_to(len).freeze() -- two handle ids, as in the model
        "mputbuf" => { let src = match st.take(n(2)) { H::B(b) => b, _ => panic!("harness") }; bytes::BufMut::put(st.m(n(1)), src); Ret::Unit }
        _ => { let _ = op; panic!("harness: unknown op") }
    }
}
fn step(st: &mut St, op: &str, o: &mut String) -> bool {
    let f: Vec<&str> = op.split(':').collect();
    st.hs.reserve(2);
    let r = catch_unwind(AssertUnwindSafe(|| tr(|| exec(st, &f, op))));
    o.push(' '); o.push_str(op); o.push('=');
    let ok = r.is_ok();
    match r {
        Ok(Ret::Unit) => o.push_str("ok|-"), Ok(Ret::Bool(b)) => o.push_str(&format!("ok|b{}", b as u8)), Ok(Ret::Err) => o.push_str("ok|err"),
        Ok(Ret::New(h)) => { st.hs.push(Some(h)); o.push_str(&format!("ok|h{}", st.hs.len() - 1)) }
        Err(p) => { drop(p); o.push_str("panic|-") }
    }
    o.push('|'); events(o); o.push('|'); dump(&st.hs, o);
    if !ledger::redzones_ok() { o.push_str("|RZ!") }
    ok
}
fn finish(st: &mut St, rng: &mut Rng, o: &mut String) {
    // drop the survivors in a seeded order
    let mut live: Vec<usize> = (0..st.hs.len()).filter(|&i| st.hs[i].is_some()).collect();
    let mut order = vec![];
    while !live.is_empty() { let k = rng.below(live.len() as u64) as usize; order.push(live.swap_remove(k)); }
    o.push_str(&format!(" end:{}=", if order.is_empty() { "~".into() } else { order.iter().map(|i| i.to_string()).collect::<Vec<_>>().join(",") }));
    let r = catch_unwind(AssertUnwindSafe(|| for i in &order { let h = st.hs[*i].take(); tr(|| drop(h)); }));
    o.push_str(if r.is_ok() { "ok|-|" } else { "panic|-|" }); events(o);
    let (bufs, ctrl) = ledger::live_summary();
    o.push_str(&format!("|live:{};ctrl:{}", if bufs.is_empty() { "~".into() } else { bufs.iter().map(|b| b.to_string()).collect::<Vec<_>>().join(",") }, ctrl));
    if !ledger::redzones_ok() { o.push_str("|RZ!") }
}

// ------------------------------------------------------------------------------------------ generator
/// landmarks for positions inside a buffer of `len` bytes; big mode adds the sizes at which size-dependent code could switch behaviour
fn marks(base: &[usize], len: usize) -> Vec<usize> {
    let mut v = base.to_vec();
    if BIG.load(AO::Relaxed) { for k in [17usize, 64, 1000, 1024, 4096, 16384, 65536, 131072] { if k <= len { v.push(k); v.push(len - k); } } }
    v
}
fn arg_around(rng: &mut Rng, vals: &[usize]) -> usize {
    let v = *rng.pick(vals);
    match rng.below(10) { 0 => v.saturating_sub(1), 1 => v.saturating_add(1), _ => v }
}
/// arguments that cannot be represented / allocated: near usize::MAX or just above isize::MAX (never a size the allocator would really be asked for)
fn big(rng: &mut Rng) -> usize { let k = rng.below(48) as usize; if rng.chance(1, 2) { usize::MAX - k } else { isize::MAX as usize + 1 + k } }
/// token of a generated byte string for an operation argument: hex, or z<seed>x<len> for long patterns
fn enc(d: &[u8]) -> String {
    if d.len() > 96 { let seed = d[0] as usize; if d.iter().enumerate().all(|(i, b)| *b == zbyte(seed, i)) { return format!("z{}x{}", seed, d.len()); } }
    crate::rng::hex(d)
}
fn gen_data(rng: &mut Rng) -> Vec<u8> {
    if BIG.load(AO::Relaxed) && rng.chance(2, 3) {
        let n = match rng.below(14) { 0 => 1000 + rng.below(100), 1 => 1024, 2 => 4096 - rng.below(3), 3 => 4096 + rng.below(9), 4 => 8192, 5 => 16384 + rng.below(2), 6 => 40000 + rng.below(100), 7 => 65536 - rng.below(2), 8 => 65536 + rng.below(9), 9 => 131072, 10 => 131073 + rng.below(8), 11 => *rng.pick(&[200000u64, 262144, 300000]), _ => 2000 + rng.below(6000) } as usize;
        let seed = rng.below(256) as usize; return (0..n).map(|i| zbyte(seed, i)).collect();
    }
    gen_data_small(rng)
}
fn gen_data_small(rng: &mut Rng) -> Vec<u8> { let n = match rng.below(40) { 0..=2 => 0, 3..=5 => rng.range(30, 70), 6 => rng.range(1000, 1100), _ => rng.range(1, 14) } as usize; let base = rng.next() as u8; (0..n).map(|i| base.wrapping_add(i as u8)).collect() }
thread_local! { static LAST: std::cell::Cell<Option<usize>> = std::cell::Cell::new(None);
                /// focused history: one or two handles, mostly the operations of a codec buffer (advance, reserve, extend, split_to, try_reclaim, clear, freeze, conversions)
                static FOCUS: std::cell::Cell<bool> = std::cell::Cell::new(false); }
fn gen_op(rng: &mut Rng, st: &St, last_split: &mut Option<(usize, usize)>, wild: bool) -> String {
    let live: Vec<usize> = (0..st.hs.len()).filter(|&i| st.hs[i].is_some()).collect();
    let focus = FOCUS.with(|f| f.get());
    if live.is_empty() || (if focus { live.len() < 2 && rng.chance(1, 6) } else { live.len() < 7 && rng.chance(1, 5) }) {
        let d = gen_data(rng);
        let asc = |rng: &mut Rng| -> Vec<u8> { gen_data_small(rng).iter().map(|b| 0x20 + b % 95).collect() };
        return match rng.below(19) {
            12 => format!("bcopy:{}", enc(&d)), 13 => format!("bfbox:{}", enc(&d)), 14 => { let a = asc(rng); format!("bfstr:{}:{}", crate::rng::hex(&a), a.len() + if rng.chance(1, 2) { 0 } else { rng.below(9) as usize }) }
            15 => format!("bfiter:{}", enc(&d)), 16 => format!("mfiter:{}:{}", enc(&d), rng.below(2)), 17 => format!("mfstr:{}", crate::rng::hex(&asc(rng))),
            0 => "bnew".into(), 1 => format!("bstatic:{}", enc(&d)), 2 | 3 => format!("bfv:{}:{}", enc(&d), d.len()), 4 => format!("bfv:{}:{}", enc(&d), d.len() + 1 + rng.below(9) as usize),
            5 => format!("bowner:{}:{}", enc(&d), if rng.chance(1, 8) { 1 } else { 0 }), 6 => "mnew".into(),
            7 => format!("mcap:{}", if BIG.load(AO::Relaxed) { *rng.pick(&[1024usize, 1023, 2048, 4096, 8192, 16384, 32768, 65536, 65537, 70000, 131072, 131073, 200000, 600000]) } else { *rng.pick(&[0usize, 1, 8, 16, 64, 100, 1024, 2000, 4096, 70000]) }), 8 => format!("mzero:{}", rng.below(20)),
            _ => format!("mslice:{}", enc(&d)),
        };
    }
    // locality: two times in five the handle of the previous operation again (sequences such as advance -> reserve -> extend on one handle)
    let i = match LAST.with(|l| l.get()) { Some(l) if live.contains(&l) && rng.chance(2, 5) => l, _ => *rng.pick(&live) };
    LAST.with(|l| l.set(Some(i)));
    match st.hs[i].as_ref().unwrap() {
        H::B(b) => {
            let len = b.len();
            let idx = |rng: &mut Rng| -> usize { if wild && rng.chance(1, 6) { if rng.chance(1, 2) { len + 1 + rng.below(3) as usize } else { big(rng) } } else { arg_around(rng, &marks(&[0, 1, len / 2, len.saturating_sub(1), len], len)).min(if wild { usize::MAX } else { len }) } };
            let draw = if focus && rng.chance(3, 4) { *rng.pick(&[14u64, 14, 13, 9, 9, 8, 18, 18, 10, 0, 16]) } else { rng.below(20) };
            match draw {
                0 | 1 => format!("bclone:{}", i),
                2 | 3 => { let a = idx(rng); let b2 = idx(rng); let (a, b2) = if a <= b2 || (wild && rng.chance(1, 4)) { (a, b2) } else { (b2, a) }; format!("bslice:{}:{}:{}", i, a, b2) }
                4 => { let a = idx(rng); let e = if wild && rng.chance(1, 5) { usize::MAX } else { idx(rng) }; format!("bslicei:{}:{}:{}", i, a.min(e), e) }
                5 => { if wild && rng.chance(1, 4) { format!("bsliceref:{}:x", i) } else { let o = rng.below(len as u64 + 1) as usize; let l = rng.below((len - o) as u64 + 1) as usize; format!("bsliceref:{}:{}:{}", i, o, l) } }
                6 | 7 => format!("bsplitoff:{}:{}", i, idx(rng)), 8 => format!("bsplitto:{}:{}", i, idx(rng)), 9 => format!("bctb:{}:{}", i, idx(rng)),
                10 => format!("btrunc:{}:{}", i, idx(rng)), 11 => if rng.chance(1, 3) { format!("bclear:{}", i) } else { format!("badv:{}:{}", i, idx(rng)) },
                12 => format!("buniq:{}", i), 13 => format!("btryinto:{}", i), 14 => format!("binto:{}", i), 15 => format!("bvec:{}", i),
                16 | 17 => format!("bdrop:{}", i), _ => format!("badv:{}:{}", i, idx(rng)),
            }
        }
        H::M(m) => {
            let (len, cap) = (m.len(), m.capacity());
            let bsz = ledger::block_size(m.as_ptr() as usize).unwrap_or(cap);
            let idx = |rng: &mut Rng, top: usize| -> usize { if wild && rng.chance(1, 6) { if rng.chance(1, 2) { top + 1 + rng.below(3) as usize } else { big(rng) } } else { arg_around(rng, &marks(&[0, 1, len / 2, len.saturating_sub(1), len, cap], len)).min(if wild { usize::MAX } else { top }) } };
            let draw = if focus && rng.chance(3, 4) { *rng.pick(&[21u64, 21, 22, 8, 9, 10, 10, 11, 11, 13, 13, 2, 2, 5, 6, 19, 29, 7, 24]) } else { rng.below(37) };
            match draw {
                26 | 27 => { let k = *rng.pick(&[0usize, 1, 2, 3, 5, 15, 16, 17, 18, 31, 32, 33, 40]); let mut cs = vec![]; for _ in 0..k { let l = rng.below(5) as usize; let b0 = rng.next() as u8; let c: Vec<u8> = (0..l).map(|j| b0.wrapping_add(j as u8)).collect(); cs.push(if BIG.load(AO::Relaxed) && rng.chance(1, 12) { enc(&gen_data(rng)) } else { crate::rng::hex(&c) }); }
                             format!("mextb:{}:{}", i, if cs.is_empty() { "~".to_string() } else { cs.join(",") }) }
                28 => { let d = gen_data(rng); let d = if d.len() > 40 { d[..40].to_vec() } else { d }; format!("mextr:{}:{}", i, crate::rng::hex(&d)) }   // byte-at-a-time loop in the model: short data 29 => format!("mput:{}:{}", i, enc(&gen_data(rng))),
                30 => format!("mputb:{}:{}:{}", i, rng.below(256), arg_around(rng, &[0, 1, cap - len, cap - len + 1, 64, 2000])),
                31 => { let a: Vec<u8> = gen_data_small(rng).iter().map(|b| 0x20 + b % 95).collect(); format!("mfmt:{}:{}", i, crate::rng::hex(&a)) }
                32 => format!("msetlen:{}:{}", i, arg_around(rng, &[0, 1, len / 2, len.saturating_sub(1), len]).min(len)),
                33 => { let room = cap - len; let k = arg_around(rng, &[0, 1, room / 2, room]).min(room).min(64); let b0 = rng.next() as u8; let c: Vec<u8> = (0..k).map(|j| b0.wrapping_add(j as u8)).collect(); format!("mspare:{}:{}", i, crate::rng::hex(&c)) }
                34 => format!("mctb:{}:{}", i, idx(rng, len)),
                35 | 36 => { let bs: Vec<usize> = live.iter().copied().filter(|&j| matches!(st.hs[j], Some(H::B(_)))).collect(); if bs.is_empty() { format!("mput:{}:{}", i, enc(&gen_data(rng))) } else { format!("mputbuf:{}:{}", i, *rng.pick(&bs)) } }
                0 | 1 => { let at = idx(rng, cap); *last_split = Some((i, st.hs.len())); format!("msplitoff:{}:{}", i, at) }
                2 | 3 => { let at = idx(rng, len); *last_split = Some((st.hs.len(), i)); format!("msplitto:{}:{}", i, at) }
                4 => { *last_split = Some((st.hs.len(), i)); format!("msplit:{}", i) }
                5 => format!("mtrunc:{}:{}", i, idx(rng, len)), 6 => format!("mclear:{}", i),
                7 => format!("mresize:{}:{}:{}", i, if wild && rng.chance(1, 8) { big(rng) } else { arg_around(rng, &[0, len, cap.min(len + 70), (cap + 3).min(len + 90), len + 1]) }, rng.below(256)),
                8 | 9 | 10 => format!("mreserve:{}:{}", i, if rng.chance(1, 6) { big(rng) } else { arg_around(rng, &[0, 1, cap - len, cap - len + 1, cap, 2 * cap + 1, 64, 2000, bsz, bsz.saturating_sub(len)]) }),
                11 | 12 => format!("mreclaim:{}:{}", i, if rng.chance(1, 6) { big(rng) } else { arg_around(rng, &[0, 1, cap - len, cap - len + 1, cap, cap + 8, 64, bsz, bsz, bsz.saturating_sub(len), bsz / 2 + 1]) }),
                13 | 14 => format!("mext:{}:{}", i, enc(&gen_data(rng))),
                15 => { let d = gen_data(rng); let d = if d.len() > 40 { d[..40].to_vec() } else { d }; let hint = match rng.below(4) { 0 => 0, 1 => d.len(), 2 => d.len() / 2, _ => d.len() + 3 }; format!("mexti:{}:{}:{}", i, crate::rng::hex(&d), hint) }
                16 => format!("mwrite:{}:{}:{}", i, if len == 0 || (wild && rng.chance(1, 5)) { len + rng.below(2) as usize } else { rng.below(len as u64) as usize }, rng.below(256)),
                17 | 18 => { // unsplit: prefer re-joining the halves of the last split, else any other BytesMut
                    let others: Vec<usize> = live.iter().copied().filter(|&j| j != i && matches!(st.hs[j], Some(H::M(_)))).collect();
                    if let Some((a, b)) = *last_split { if st.hs.get(a).map_or(false, |h| matches!(h, Some(H::M(_)))) && st.hs.get(b).map_or(false, |h| matches!(h, Some(H::M(_)))) && a != b && rng.chance(3, 4) { return format!("munsplit:{}:{}", a, b); } }
                    if others.is_empty() { format!("mclone:{}", i) } else { format!("munsplit:{}:{}", i, *rng.pick(&others)) } }
                19 => format!("mfreeze:{}", i), 20 => format!("mvec:{}", i), 21 | 22 => format!("madv:{}:{}", i, idx(rng, len)),
                23 => format!("mclone:{}", i), _ => format!("mdrop:{}", i),
            }
        }
        H::V(_) => if rng.chance(2, 3) { format!("vbytes:{}", i) } else { format!("vdrop:{}", i) },
    }
}
pub fn heap_random(out: &mut dyn Write, seed: u64, n: usize, odd: bool, wild_pct: u64, maxops: u64) { heap_random_mode(out, seed, n, odd, wild_pct, maxops, false) }
/// arena = true: byte buffers are adjacent in memory (ledger arena mode); a third of the histories start with two full, shared BytesMut
/// on two adjacent buffers and an unsplit of the first with the second
pub fn heap_random_mode(out: &mut dyn Write, seed: u64, n: usize, odd: bool, wild_pct: u64, maxops: u64, arena: bool) {
    let mut rng = Rng::new(seed ^ 0x4ea9);
    ledger::ARENA.store(arena, std::sync::atomic::Ordering::Relaxed);
    for _ in 0..n {
        ledger::reset(odd);
        let mut st = St { hs: vec![None], next_owner: 1 };           // handle ids start at 1
        let mut o = format!("{} odd={}", if arena { "E1A" } else { "E1" }, odd as u8);
        let nops = rng.range(3, maxops);
        let wild = rng.below(100) < wild_pct;
        let mut last_split = None;
        LAST.with(|l| l.set(None));
        let fc = rng.chance(if BIG.load(AO::Relaxed) { 3 } else { 1 }, 6); FOCUS.with(|f| f.set(fc));
        crate::progress(&o);
        if arena && rng.chance(1, 3) {
            let sz = *rng.pick(&[2usize, 8, 16, 64]); let d1 = rng.bytes(sz); let d2 = rng.bytes(sz);
            for op in [format!("mslice:{}", crate::rng::hex(&d1)), format!("mslice:{}", crate::rng::hex(&d2)), format!("msplitoff:1:{}", sz), format!("msplitoff:2:{}", sz), "mdrop:3".to_string(), "mdrop:4".to_string(), "munsplit:1:2".to_string()] { step(&mut st, &op, &mut o); }
        }
        if BIG.load(AO::Relaxed) && !arena && rng.chance(1, 3) {
            // life cycle of a codec buffer as the start state: a buffer that has grown, was drained (or mostly consumed) and whose parts are gone, so that the
            // handle is (nearly) empty and alone on a large allocation: the states in which reclaiming, reuse and in-place conversion are decided
            let big = *rng.pick(&[5000usize, 16384, 40000, 65536, 70000, 131072, 140000, 200000, 300000]);
            let c0 = *rng.pick(&[0usize, 64, 1024, 4096, 65536]);
            let sd = rng.below(256);
            let pro: Vec<String> = match rng.below(4) {
                0 => vec![format!("mcap:{}", c0), format!("mext:1:z{}x{}", sd, big), format!("msplitto:1:{}", big), "mdrop:2".to_string()],
                1 => vec![format!("mcap:{}", c0), format!("mext:1:z{}x{}", sd, big), format!("msplitto:1:{}", big - *rng.pick(&[1usize, 17, 1000])), "mdrop:2".to_string()],
                2 => vec![format!("mslice:z{}x{}", sd, big), format!("madv:1:{}", big - *rng.pick(&[0usize, 1, 64, 1000, 4097]))],
                _ => vec![format!("bfv:z{}x{}:{}", sd, big, big + *rng.pick(&[0usize, 1, 4096])), format!("bsplitto:1:{}", big - *rng.pick(&[1usize, 64, 1000, 4000])), "bdrop:2".to_string()],
            };
            for op in pro { step(&mut st, &op, &mut o); }
            FOCUS.with(|f| f.set(true)); LAST.with(|l| l.set(Some(1)));
        }
        for _ in 0..nops {
            let op = gen_op(&mut rng, &st, &mut last_split, wild);
            step(&mut st, &op, &mut o);
        }
        finish(&mut st, &mut rng, &mut o);
        writeln!(out, "{}", o).unwrap(); out.flush().unwrap();
    }
    ledger::reset(false);
    ledger::ARENA.store(false, std::sync::atomic::Ordering::Relaxed);
}
pub fn heap_replay(out: &mut dyn Write) {
    use std::io::BufRead;
    let stdin = std::io::stdin();
    for line in stdin.lock().lines() {
        let line = line.unwrap(); let f: Vec<&str> = line.split_whitespace().collect();
        if f.len() < 2 || f[0] != "E1" { continue; }
        let odd = f[1] == "odd=1";
        ledger::reset(odd);
        let mut st = St { hs: vec![None], next_owner: 1 };
        let mut o = format!("E1 odd={}", odd as u8);
        let mut order: Option<Vec<usize>> = None;
        for t in &f[2..] {
            let op = t.split('=').next().unwrap();
            if let Some(rest) = op.strip_prefix("end:") { order = Some(if rest == "~" { vec![] } else { rest.split(',').map(|x| x.parse().unwrap()).collect() }); break; }
            step(&mut st, op, &mut o);
        }
        // replay the recorded drop order
        let order = order.unwrap_or_else(|| (0..st.hs.len()).filter(|&i| st.hs[i].is_some()).collect());
        o.push_str(&format!(" end:{}=", if order.is_empty() { "~".into() } else { order.iter().map(|i| i.to_string()).collect::<Vec<_>>().join(",") }));
        let r = catch_unwind(AssertUnwindSafe(|| for i in &order { if let Some(h) = st.hs.get_mut(*i).and_then(|h| h.take()) { tr(|| drop(h)); } }));
        o.push_str(if r.is_ok() { "ok|-|" } else { "panic|-|" }); events(&mut o);
        let (bufs, ctrl) = ledger::live_summary();
        o.push_str(&format!("|live:{};ctrl:{}", if bufs.is_empty() { "~".into() } else { bufs.iter().map(|b| b.to_string()).collect::<Vec<_>>().join(",") }, ctrl));
        writeln!(out, "{}", o).unwrap();
    }
    ledger::reset(false);
}

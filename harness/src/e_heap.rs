//! Engine E1 (implementation side): histories of safe operations on sets of Bytes / BytesMut / Vec<u8> handles on the real
//! crate under the ledger allocator.  Per step: outcome, return value, allocator/owner events, and for every live handle
//! (kind, ledger block, offset, len, cap, contents, is_unique); red zones; at the end all survivors are dropped in a seeded
//! order and the ledger must be empty.
//! Line:  E1 odd=<0|1> <op>=<ok|panic>|<ret>|<events>|<state> ... end=...
use crate::ledger::{self, tr, untracked, Ev};
use crate::rng::{hex, Rng};
use bytes::{Buf, Bytes, BytesMut};
use std::io::Write;
use std::panic::{catch_unwind, AssertUnwindSafe};

pub enum H { B(Bytes), M(BytesMut), V(Vec<u8>) }
struct Own { data: Vec<u8>, id: u32, panics: bool }
impl AsRef<[u8]> for Own { fn as_ref(&self) -> &[u8] { ledger::note_owner(true, self.id); if self.panics { panic!("as_ref refuses") } &self.data } }
impl Drop for Own { fn drop(&mut self) { ledger::note_owner(false, self.id); } }

fn unhx(s: &str) -> Vec<u8> { crate::e_buf::unhx(s) }
fn loc(p: *const u8) -> String {
    match ledger::locate(p as usize) { Some((id, ofs, live, kind)) => format!("{}{}{}:{}", if kind == 2 { "s" } else { "" }, id, if live { "" } else { "!dead" }, ofs), None => if (p as usize) < 4096 { "d:0".into() } else { "x:0".into() } }
}
fn dump(hs: &[Option<H>], o: &mut String) {
    let mut first = true;
    for (i, h) in hs.iter().enumerate() {
        if let Some(h) = h {
            if !first { o.push(',') } first = false;
            match h {
                H::B(b) => o.push_str(&format!("{}:B:{}:{}:-:{}:{}", i, loc(b.as_ptr()), b.len(), hex(b), b.is_unique() as u8)),
                H::M(m) => o.push_str(&format!("{}:M:{}:{}:{}:{}:-", i, loc(m.as_ptr()), m.len(), m.capacity(), hex(m))),
                H::V(v) => o.push_str(&format!("{}:V:{}:{}:{}:{}:-", i, loc(v.as_ptr()), v.len(), v.capacity(), hex(v))),
            }
        }
    }
    if first { o.push('~') }
}
fn events(o: &mut String) {
    let evs = ledger::take_events();
    if evs.is_empty() { o.push('~') }
    for (i, e) in evs.iter().enumerate() {
        if i > 0 { o.push(',') }
        match e {
            Ev::Alloc(id, sz) => o.push_str(&format!("a{}:{}", id, sz)),
            Ev::Free(id, sz, lsz, lal) => { o.push_str(&format!("f{}:{}", id, sz)); if lsz != sz || *lal != 1 { o.push_str(&format!("!layout({}/{})", lsz, lal)) } }
            Ev::Realloc(a, b, sz) => o.push_str(&format!("r{}:{}:{}", a, b, sz)),
            Ev::AllocCtrl => o.push_str("ac"), Ev::FreeCtrl => o.push_str("fc"),
            Ev::DoubleFree(id) => o.push_str(&format!("f{}:0!double", id)), Ev::DoubleFreeCtrl => o.push_str("fc!double"), Ev::BadLayoutCtrl => o.push_str("fc!layout"),
            Ev::OwnerAsRef(i) => o.push_str(&format!("oa{}", i)), Ev::OwnerDrop(i) => o.push_str(&format!("od{}", i)),
        }
    }
}
enum Ret { Unit, Bool(bool), New(H), Err }
struct St { hs: Vec<Option<H>>, next_owner: u32 }
impl St {
    fn b(&mut self, i: usize) -> &mut Bytes { match self.hs[i].as_mut() { Some(H::B(b)) => b, _ => panic!("harness: not a Bytes") } }
    fn m(&mut self, i: usize) -> &mut BytesMut { match self.hs[i].as_mut() { Some(H::M(b)) => b, _ => panic!("harness: not a BytesMut") } }
    fn take(&mut self, i: usize) -> H { self.hs[i].take().expect("harness: dead handle") }
}
fn exec(st: &mut St, f: &[&str], op: &str) -> Ret {
    let n = |i: usize| -> usize { f[i].parse::<usize>().unwrap() };
    match f[0] {
        "bnew" => Ret::New(H::B(Bytes::new())),
        "bstatic" => { let d = untracked(|| { let d: &'static [u8] = Box::leak(unhx(f[1]).into_boxed_slice()); if !d.is_empty() { ledger::register_static(d.as_ptr(), d.len()); } d }); Ret::New(H::B(Bytes::from_static(d))) }
        "bfv" => { let d = untracked(|| unhx(f[1])); let cap = n(2).max(d.len()); let mut v = Vec::with_capacity(cap); v.extend_from_slice(&d); Ret::New(H::B(Bytes::from(v))) }
        "bowner" => { let d = untracked(|| unhx(f[1])); let id = st.next_owner; st.next_owner += 1; let mut data = Vec::with_capacity(d.len()); data.extend_from_slice(&d);
                      Ret::New(H::B(Bytes::from_owner(Own { data, id, panics: f[2] == "1" }))) }
        "mnew" => Ret::New(H::M(BytesMut::new())),
        "mcap" => Ret::New(H::M(BytesMut::with_capacity(n(1)))),
        "mzero" => Ret::New(H::M(BytesMut::zeroed(n(1)))),
        "mslice" => { let d = untracked(|| unhx(f[1])); Ret::New(H::M(BytesMut::from(&d[..]))) }
        "bclone" => { let c = st.b(n(1)).clone(); Ret::New(H::B(c)) }
        "bslice" => { let c = st.b(n(1)).slice(n(2)..n(3)); Ret::New(H::B(c)) }
        "bslicei" => { let c = st.b(n(1)).slice(n(2)..=n(3)); Ret::New(H::B(c)) }
        "bsliceref" => { let b = st.b(n(1));
            if f[2] == "x" { let foreign = untracked(|| vec![1u8, 2, 3]); let c = b.slice_ref(&foreign[..]); Ret::New(H::B(c)) }
            else { let (o, l) = (n(2), n(3)); let sub: &[u8] = if l == 0 { &b""[..] } else { unsafe { std::slice::from_raw_parts(b.as_ptr().add(o), l) } }; let c = b.slice_ref(sub); Ret::New(H::B(c)) } }
        "bsplitoff" => { let c = st.b(n(1)).split_off(n(2)); Ret::New(H::B(c)) }
        "bsplitto" => { let c = st.b(n(1)).split_to(n(2)); Ret::New(H::B(c)) }
        "bctb" => { let c = bytes::Buf::copy_to_bytes(st.b(n(1)), n(2)); Ret::New(H::B(c)) }   // Buf::copy_to_bytes of a Bytes: documented as split_to
        "btrunc" => { st.b(n(1)).truncate(n(2)); Ret::Unit }
        "bclear" => { st.b(n(1)).clear(); Ret::Unit }
        "badv" => { st.b(n(1)).advance(n(2)); Ret::Unit }
        "buniq" => Ret::Bool(st.b(n(1)).is_unique()),
        "btryinto" => { let i = n(1); match st.take(i) { H::B(b) => match b.try_into_mut() { Ok(m) => Ret::New(H::M(m)), Err(b) => { st.hs[i] = Some(H::B(b)); Ret::Err } }, _ => panic!("harness") } }
        "binto" => { match st.take(n(1)) { H::B(b) => Ret::New(H::M(BytesMut::from(b))), _ => panic!("harness") } }
        "bvec" => { match st.take(n(1)) { H::B(b) => Ret::New(H::V(Vec::from(b))), _ => panic!("harness") } }
        "bdrop" | "mdrop" | "vdrop" => { drop(st.take(n(1))); Ret::Unit }
        "msplitoff" => { let c = st.m(n(1)).split_off(n(2)); Ret::New(H::M(c)) }
        "msplitto" => { let c = st.m(n(1)).split_to(n(2)); Ret::New(H::M(c)) }
        "msplit" => { let c = st.m(n(1)).split(); Ret::New(H::M(c)) }
        "mtrunc" => { st.m(n(1)).truncate(n(2)); Ret::Unit }
        "mclear" => { st.m(n(1)).clear(); Ret::Unit }
        "mresize" => { st.m(n(1)).resize(n(2), n(3) as u8); Ret::Unit }
        "mreserve" => { st.m(n(1)).reserve(n(2)); Ret::Unit }
        "mreclaim" => Ret::Bool(st.m(n(1)).try_reclaim(n(2))),
        "mext" => { let d = untracked(|| unhx(f[2])); st.m(n(1)).extend_from_slice(&d); Ret::Unit }
        "mexti" => { let d = untracked(|| unhx(f[2])); let hint = n(3); struct It { d: Vec<u8>, i: usize, hint: usize } impl Iterator for It { type Item = u8; fn next(&mut self) -> Option<u8> { let r = self.d.get(self.i).copied(); self.i += 1; r } fn size_hint(&self) -> (usize, Option<usize>) { (self.hint, None) } }
                     st.m(n(1)).extend(It { d, i: 0, hint }); Ret::Unit }
        "mwrite" => { let i = n(2); st.m(n(1))[i] = n(3) as u8; Ret::Unit }
        "munsplit" => { let o = match st.take(n(2)) { H::M(m) => m, _ => panic!("harness") }; st.m(n(1)).unsplit(o); Ret::Unit }
        "mfreeze" => { match st.take(n(1)) { H::M(m) => Ret::New(H::B(m.freeze())), _ => panic!("harness") } }
        "mvec" => { match st.take(n(1)) { H::M(m) => Ret::New(H::V(Vec::from(m))), _ => panic!("harness") } }
        "madv" => { st.m(n(1)).advance(n(2)); Ret::Unit }
        "mclone" => { let c = st.m(n(1)).clone(); Ret::New(H::M(c)) }
        "vbytes" => { match st.take(n(1)) { H::V(v) => Ret::New(H::B(Bytes::from(v))), _ => panic!("harness") } }
        _ => { let _ = op; panic!("harness: unknown op") }
    }
}
fn step(st: &mut St, op: &str, o: &mut String) -> bool {
    let f: Vec<&str> = op.split(':').collect();
    st.hs.reserve(2);
    let r = catch_unwind(AssertUnwindSafe(|| tr(|| exec(st, &f, op))));
    o.push(' '); o.push_str(op); o.push('=');
    let ok = r.is_ok();
    match r {
        Ok(Ret::Unit) => o.push_str("ok|-"), Ok(Ret::Bool(b)) => o.push_str(&format!("ok|b{}", b as u8)), Ok(Ret::Err) => o.push_str("ok|err"),
        Ok(Ret::New(h)) => { st.hs.push(Some(h)); o.push_str(&format!("ok|h{}", st.hs.len() - 1)) }
        Err(p) => { drop(p); o.push_str("panic|-") }
    }
    o.push('|'); events(o); o.push('|'); dump(&st.hs, o);
    if !ledger::redzones_ok() { o.push_str("|RZ!") }
    ok
}
fn finish(st: &mut St, rng: &mut Rng, o: &mut String) {
    // drop the survivors in a seeded order
    let mut live: Vec<usize> = (0..st.hs.len()).filter(|&i| st.hs[i].is_some()).collect();
    let mut order = vec![];
    while !live.is_empty() { let k = rng.below(live.len() as u64) as usize; order.push(live.swap_remove(k)); }
    o.push_str(&format!(" end:{}=", if order.is_empty() { "~".into() } else { order.iter().map(|i| i.to_string()).collect::<Vec<_>>().join(",") }));
    let r = catch_unwind(AssertUnwindSafe(|| for i in &order { let h = st.hs[*i].take(); tr(|| drop(h)); }));
    o.push_str(if r.is_ok() { "ok|-|" } else { "panic|-|" }); events(o);
    let (bufs, ctrl) = ledger::live_summary();
    o.push_str(&format!("|live:{};ctrl:{}", if bufs.is_empty() { "~".into() } else { bufs.iter().map(|b| b.to_string()).collect::<Vec<_>>().join(",") }, ctrl));
    if !ledger::redzones_ok() { o.push_str("|RZ!") }
}

// ------------------------------------------------------------------------------------------ generator
fn arg_around(rng: &mut Rng, vals: &[usize]) -> usize {
    let v = *rng.pick(vals);
    match rng.below(10) { 0 => v.saturating_sub(1), 1 => v.saturating_add(1), _ => v }
}
/// arguments that cannot be represented / allocated: near usize::MAX or just above isize::MAX (never a size the allocator would really be asked for)
fn big(rng: &mut Rng) -> usize { let k = rng.below(48) as usize; if rng.chance(1, 2) { usize::MAX - k } else { isize::MAX as usize + 1 + k } }
fn gen_data(rng: &mut Rng) -> Vec<u8> { let n = match rng.below(40) { 0..=2 => 0, 3..=5 => rng.range(30, 70), 6 => rng.range(1000, 1100), _ => rng.range(1, 14) } as usize; let base = rng.next() as u8; (0..n).map(|i| base.wrapping_add(i as u8)).collect() }
fn gen_op(rng: &mut Rng, st: &St, last_split: &mut Option<(usize, usize)>, wild: bool) -> String {
    let live: Vec<usize> = (0..st.hs.len()).filter(|&i| st.hs[i].is_some()).collect();
    if live.is_empty() || (live.len() < 7 && rng.chance(1, 5)) {
        let d = gen_data(rng);
        return match rng.below(12) {
            0 => "bnew".into(), 1 => format!("bstatic:{}", hex(&d)), 2 | 3 => format!("bfv:{}:{}", hex(&d), d.len()), 4 => format!("bfv:{}:{}", hex(&d), d.len() + 1 + rng.below(9) as usize),
            5 => format!("bowner:{}:{}", hex(&d), if rng.chance(1, 8) { 1 } else { 0 }), 6 => "mnew".into(),
            7 => format!("mcap:{}", *rng.pick(&[0usize, 1, 8, 16, 64, 100, 1024, 2000, 4096, 70000])), 8 => format!("mzero:{}", rng.below(20)),
            _ => format!("mslice:{}", hex(&d)),
        };
    }
    let i = *rng.pick(&live);
    match st.hs[i].as_ref().unwrap() {
        H::B(b) => {
            let len = b.len();
            let idx = |rng: &mut Rng| -> usize { if wild && rng.chance(1, 6) { if rng.chance(1, 2) { len + 1 + rng.below(3) as usize } else { big(rng) } } else { arg_around(rng, &[0, 1, len / 2, len.saturating_sub(1), len]).min(if wild { usize::MAX } else { len }) } };
            match rng.below(20) {
                0 | 1 => format!("bclone:{}", i),
                2 | 3 => { let a = idx(rng); let b2 = idx(rng); let (a, b2) = if a <= b2 || (wild && rng.chance(1, 4)) { (a, b2) } else { (b2, a) }; format!("bslice:{}:{}:{}", i, a, b2) }
                4 => { let a = idx(rng); let e = if wild && rng.chance(1, 5) { usize::MAX } else { idx(rng) }; format!("bslicei:{}:{}:{}", i, a.min(e), e) }
                5 => { if wild && rng.chance(1, 4) { format!("bsliceref:{}:x", i) } else { let o = rng.below(len as u64 + 1) as usize; let l = rng.below((len - o) as u64 + 1) as usize; format!("bsliceref:{}:{}:{}", i, o, l) } }
                6 | 7 => format!("bsplitoff:{}:{}", i, idx(rng)), 8 => format!("bsplitto:{}:{}", i, idx(rng)), 9 => format!("bctb:{}:{}", i, idx(rng)),
                10 => format!("btrunc:{}:{}", i, idx(rng)), 11 => if rng.chance(1, 3) { format!("bclear:{}", i) } else { format!("badv:{}:{}", i, idx(rng)) },
                12 => format!("buniq:{}", i), 13 => format!("btryinto:{}", i), 14 => format!("binto:{}", i), 15 => format!("bvec:{}", i),
                16 | 17 => format!("bdrop:{}", i), _ => format!("badv:{}:{}", i, idx(rng)),
            }
        }
        H::M(m) => {
            let (len, cap) = (m.len(), m.capacity());
            let bsz = ledger::block_size(m.as_ptr() as usize).unwrap_or(cap);
            let idx = |rng: &mut Rng, top: usize| -> usize { if wild && rng.chance(1, 6) { if rng.chance(1, 2) { top + 1 + rng.below(3) as usize } else { big(rng) } } else { arg_around(rng, &[0, 1, len / 2, len.saturating_sub(1), len, cap]).min(if wild { usize::MAX } else { top }) } };
            match rng.below(26) {
                0 | 1 => { let at = idx(rng, cap); *last_split = Some((i, st.hs.len())); format!("msplitoff:{}:{}", i, at) }
                2 | 3 => { let at = idx(rng, len); *last_split = Some((st.hs.len(), i)); format!("msplitto:{}:{}", i, at) }
                4 => { *last_split = Some((st.hs.len(), i)); format!("msplit:{}", i) }
                5 => format!("mtrunc:{}:{}", i, idx(rng, len)), 6 => format!("mclear:{}", i),
                7 => format!("mresize:{}:{}:{}", i, if wild && rng.chance(1, 8) { big(rng) } else { arg_around(rng, &[0, len, cap.min(len + 70), (cap + 3).min(len + 90), len + 1]) }, rng.below(256)),
                8 | 9 | 10 => format!("mreserve:{}:{}", i, if rng.chance(1, 6) { big(rng) } else { arg_around(rng, &[0, 1, cap - len, cap - len + 1, cap, 2 * cap + 1, 64, 2000, bsz, bsz.saturating_sub(len)]) }),
                11 | 12 => format!("mreclaim:{}:{}", i, if rng.chance(1, 6) { big(rng) } else { arg_around(rng, &[0, 1, cap - len, cap - len + 1, cap, cap + 8, 64, bsz, bsz, bsz.saturating_sub(len), bsz / 2 + 1]) }),
                13 | 14 => format!("mext:{}:{}", i, hex(&gen_data(rng))),
                15 => { let d = gen_data(rng); let d = if d.len() > 40 { d[..40].to_vec() } else { d }; let hint = match rng.below(4) { 0 => 0, 1 => d.len(), 2 => d.len() / 2, _ => d.len() + 3 }; format!("mexti:{}:{}:{}", i, hex(&d), hint) }
                16 => format!("mwrite:{}:{}:{}", i, if len == 0 || (wild && rng.chance(1, 5)) { len + rng.below(2) as usize } else { rng.below(len as u64) as usize }, rng.below(256)),
                17 | 18 => { // unsplit: prefer re-joining the halves of the last split, else any other BytesMut
                    let others: Vec<usize> = live.iter().copied().filter(|&j| j != i && matches!(st.hs[j], Some(H::M(_)))).collect();
                    if let Some((a, b)) = *last_split { if st.hs.get(a).map_or(false, |h| matches!(h, Some(H::M(_)))) && st.hs.get(b).map_or(false, |h| matches!(h, Some(H::M(_)))) && a != b && rng.chance(3, 4) { return format!("munsplit:{}:{}", a, b); } }
                    if others.is_empty() { format!("mclone:{}", i) } else { format!("munsplit:{}:{}", i, *rng.pick(&others)) } }
                19 => format!("mfreeze:{}", i), 20 => format!("mvec:{}", i), 21 | 22 => format!("madv:{}:{}", i, idx(rng, len)),
                23 => format!("mclone:{}", i), _ => format!("mdrop:{}", i),
            }
        }
        H::V(_) => if rng.chance(2, 3) { format!("vbytes:{}", i) } else { format!("vdrop:{}", i) },
    }
}
pub fn heap_random(out: &mut dyn Write, seed: u64, n: usize, odd: bool, wild_pct: u64, maxops: u64) { heap_random_mode(out, seed, n, odd, wild_pct, maxops, false) }
/// arena = true: byte buffers are adjacent in memory (ledger arena mode); a third of the histories start with two full, shared BytesMut
/// on two adjacent buffers and an unsplit of the first with the second
pub fn heap_random_mode(out: &mut dyn Write, seed: u64, n: usize, odd: bool, wild_pct: u64, maxops: u64, arena: bool) {
    let mut rng = Rng::new(seed ^ 0x4ea9);
    ledger::ARENA.store(arena, std::sync::atomic::Ordering::Relaxed);
    for _ in 0..n {
        ledger::reset(odd);
        let mut st = St { hs: vec![None], next_owner: 1 };           // handle ids start at 1
        let mut o = format!("{} odd={}", if arena { "E1A" } else { "E1" }, odd as u8);
        let nops = rng.range(3, maxops);
        let wild = rng.below(100) < wild_pct;
        let mut last_split = None;
        crate::progress(&o);
        if arena && rng.chance(1, 3) {
            let sz = *rng.pick(&[2usize, 8, 16, 64]); let d1 = rng.bytes(sz); let d2 = rng.bytes(sz);
            for op in [format!("mslice:{}", hex(&d1)), format!("mslice:{}", hex(&d2)), format!("msplitoff:1:{}", sz), format!("msplitoff:2:{}", sz), "mdrop:3".to_string(), "mdrop:4".to_string(), "munsplit:1:2".to_string()] { step(&mut st, &op, &mut o); }
        }
        for _ in 0..nops {
            let op = gen_op(&mut rng, &st, &mut last_split, wild);
            step(&mut st, &op, &mut o);
        }
        finish(&mut st, &mut rng, &mut o);
        writeln!(out, "{}", o).unwrap(); out.flush().unwrap();
    }
    ledger::reset(false);
    ledger::ARENA.store(false, std::sync::atomic::Ordering::Relaxed);
}
pub fn heap_replay(out: &mut dyn Write) {
    use std::io::BufRead;
    let stdin = std::io::stdin();
    for line in stdin.lock().lines() {
        let line = line.unwrap(); let f: Vec<&str> = line.split_whitespace().collect();
        if f.len() < 2 || f[0] != "E1" { continue; }
        let odd = f[1] == "odd=1";
        ledger::reset(odd);
        let mut st = St { hs: vec![None], next_owner: 1 };
        let mut o = format!("E1 odd={}", odd as u8);
        let mut order: Option<Vec<usize>> = None;
        for t in &f[2..] {
            let op = t.split('=').next().unwrap();
            if let Some(rest) = op.strip_prefix("end:") { order = Some(if rest == "~" { vec![] } else { rest.split(',').map(|x| x.parse().unwrap()).collect() }); break; }
            step(&mut st, op, &mut o);
        }
        // replay the recorded drop order
        let order = order.unwrap_or_else(|| (0..st.hs.len()).filter(|&i| st.hs[i].is_some()).collect());
        o.push_str(&format!(" end:{}=", if order.is_empty() { "~".into() } else { order.iter().map(|i| i.to_string()).collect::<Vec<_>>().join(",") }));
        let r = catch_unwind(AssertUnwindSafe(|| for i in &order { if let Some(h) = st.hs.get_mut(*i).and_then(|h| h.take()) { tr(|| drop(h)); } }));
        o.push_str(if r.is_ok() { "ok|-|" } else { "panic|-|" }); events(&mut o);
        let (bufs, ctrl) = ledger::live_summary();
        o.push_str(&format!("|live:{};ctrl:{}", if bufs.is_empty() { "~".into() } else { bufs.iter().map(|b| b.to_string()).collect::<Vec<_>>().join(",") }, ctrl));
        writeln!(out, "{}", o).unwrap();
    }
    ledger::reset(false);
}

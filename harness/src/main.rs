//! bvh: implementation-side runner of the correspondence engines (DESIGN.md §4.2).
mod rng;
mod reprs;
mod e_fmt;
mod e_buf;
mod e_cmp;
mod e_bufmut;
mod ledger;
mod e_heap;
mod e_recycle;
mod e_conc;
mod e_adv;
#[global_allocator]
static GLOBAL: ledger::Ledger = ledger::Ledger;

use std::io::{BufWriter, Write};

fn arg<T: std::str::FromStr>(args: &[String], name: &str, default: T) -> T {
    args.iter().position(|a| a == name).and_then(|i| args.get(i + 1)).and_then(|v| v.parse().ok()).unwrap_or(default)
}
fn flag(args: &[String], name: &str) -> bool { args.iter().any(|a| a == name) }

pub static PROGRESS: std::sync::atomic::AtomicU64 = std::sync::atomic::AtomicU64::new(0);
pub static FINISHED: std::sync::atomic::AtomicBool = std::sync::atomic::AtomicBool::new(false);
pub static CURRENT: std::sync::Mutex<String> = std::sync::Mutex::new(String::new());
/// called at the start of every case: lets the watchdog name the case that never returned
pub fn progress(case: &str) { PROGRESS.fetch_add(1, std::sync::atomic::Ordering::Relaxed); if let Ok(mut c) = CURRENT.lock() { c.clear(); c.push_str(case); } }
fn watchdog() {
    std::thread::spawn(|| { let mut last = u64::MAX; let mut idle = 0;
        loop { std::thread::sleep(std::time::Duration::from_millis(500));
            if FINISHED.load(std::sync::atomic::Ordering::Relaxed) { return; }   // all cases done: only the output queue is draining
            let p = PROGRESS.load(std::sync::atomic::Ordering::Relaxed);
            if p == last && p != 0 { idle += 1 } else { idle = 0; last = p }
            if idle >= 20 { let c = CURRENT.lock().map(|c| c.clone()).unwrap_or_default(); eprintln!("HANG case did not return within 10 s: {}", c); std::process::exit(3); } } });
}
fn main() {
    watchdog();
    let args: Vec<String> = std::env::args().collect();
    let cmd = args.get(1).map(|s| s.as_str()).unwrap_or("");
    // output goes through an unbounded queue to a writer thread: a slow consumer of the pipe must never look like a case that does not return
    let (tx, rx) = std::sync::mpsc::channel::<Vec<u8>>();
    let writer = std::thread::spawn(move || { let so = std::io::stdout(); let mut so = so.lock(); for chunk in rx { if so.write_all(&chunk).is_err() { break; } } let _ = so.flush(); });
    struct Chan(std::sync::mpsc::Sender<Vec<u8>>);
    impl Write for Chan { fn write(&mut self, b: &[u8]) -> std::io::Result<usize> { let v = ledger::untracked(|| b.to_vec()); let _ = ledger::untracked(|| self.0.send(v)); Ok(b.len()) } fn flush(&mut self) -> std::io::Result<()> { Ok(()) } }
    let mut out = BufWriter::with_capacity(1 << 16, Chan(tx));
    let seed: u64 = arg(&args, "--seed", 1);
    let n: usize = arg(&args, "--n", 100);
    // quiet panics: outcomes are reported through catch_unwind
    let dbg = std::env::var("VERIF_DEBUG").is_ok();
    std::panic::set_hook(Box::new(move |i| { ledger::stop_tracking(); if dbg { eprintln!("panic: {}", i); } }));
    match cmd {
        "buf-random" => e_buf::buf_random(&mut out, seed, n, arg(&args, "--depth", 3)),
        "buf-codec" => e_buf::buf_codec(&mut out, seed, n),
        "buf-replay" => e_buf::buf_replay(&mut out),
        "cmp-table" => e_cmp::table(&mut out),
        "cmp" => e_cmp::cmp_cases(&mut out, seed, n, arg(&args, "--shard", 0), arg(&args, "--nshards", 1)),
        "bufmut-random" => e_bufmut::bufmut_random(&mut out, seed, n, arg(&args, "--depth", 3)),
        "bufmut-codec" => e_bufmut::bufmut_codec(&mut out, seed, n),
        "bufmut-replay" => e_bufmut::bufmut_replay(&mut out),
        "heap-random" => { e_heap::BIG.store(arg(&args, "--big", 0u8) == 1, std::sync::atomic::Ordering::Relaxed); e_heap::heap_random_mode(&mut out, seed, n, arg(&args, "--odd", 0u8) == 1, arg(&args, "--wild", 30), arg(&args, "--maxops", 30), arg(&args, "--arena", 0u8) == 1) }
        "heap-replay" => e_heap::heap_replay(&mut out),
        "recycle-one" => e_recycle::recycle_one(&mut out, arg(&args, "--rounds", 1000), arg(&args, "--factor", 1)),
        "recycle" => e_recycle::recycle(&mut out, seed, n, arg(&args, "--rounds", 1000), arg(&args, "--factor", 100)),
        "adv" => e_adv::adv(&mut out, seed, n),
        "adv-iter" => e_adv::adv_iter(&mut out, seed, n),
        "conc" => e_conc::conc(&mut out, seed, n),
        "escapes" => e_fmt::escapes(&mut out),
        "fmt" => e_fmt::fmt_cases(&mut out, seed, n, !flag(&args, "--no-pairs")),
        #[cfg(feature = "serde")]
        "serde" => e_fmt::serde_cases(&mut out, seed, n),
        _ => { eprintln!("unknown subcommand {:?}", cmd); std::process::exit(2); }
    }
    FINISHED.store(true, std::sync::atomic::Ordering::Relaxed);
    out.flush().unwrap();
    drop(out); let _ = writer.join();
}

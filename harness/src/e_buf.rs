//! Engines E2/E3 (implementation side): Buf adapter trees built from the crate's own types, cursor /
//! getter scripts run under catch_unwind, every observation and the full tree state printed per op.
//! Line format:  B <tree> <op>=<obs>@<state> ...      (see extract/run_buf.ml for the reader)
use crate::reprs::{make_bytes, make_mut};
use crate::rng::Rng;
use bytes::buf::{Chain, IntoIter, Take};
use bytes::{Buf, Bytes, BytesMut};
use std::collections::VecDeque;
use std::io::{BufRead, Cursor, IoSlice, Read, Write};
use std::panic::{catch_unwind, AssertUnwindSafe};

// ------------------------------------------------------------------------------------------ trees
#[derive(Clone, Debug)]
pub enum T {
    S(Vec<u8>), B(usize, Vec<u8>), M(usize, Vec<u8>), Cur(Vec<u8>, u64), D(Vec<u8>, Vec<u8>), G(Vec<Vec<u8>>),
    C(Box<T>, Box<T>), Tk(usize, Box<T>), F(Box<T>), R(Box<T>),
}
pub fn hx(bs: &[u8]) -> String { crate::rng::hex(bs) }
pub fn unhx(s: &str) -> Vec<u8> {
    if s == "-" { return vec![]; }
    (0..s.len() / 2).map(|i| u8::from_str_radix(&s[2 * i..2 * i + 2], 16).unwrap()).collect()
}
impl T {
    pub fn show(&self, o: &mut String) {
        match self {
            T::S(b) => { o.push_str("s:"); o.push_str(&hx(b)) }
            T::B(k, b) => { o.push_str(&format!("b{}:", k)); o.push_str(&hx(b)) }
            T::M(k, b) => { o.push_str(&format!("m{}:", k)); o.push_str(&hx(b)) }
            T::Cur(b, p) => { o.push_str("c:"); o.push_str(&hx(b)); o.push_str(&format!("@{}", p)) }
            T::D(a, b) => { o.push_str("d:"); o.push_str(&hx(a)); o.push(','); o.push_str(&hx(b)) }
            T::G(cs) => { o.push_str("g:"); if cs.is_empty() { o.push('~') } for (i, c) in cs.iter().enumerate() { if i > 0 { o.push(',') } o.push_str(&hx(c)) } }
            T::C(a, b) => { o.push_str("C("); a.show(o); o.push(','); b.show(o); o.push(')') }
            T::Tk(n, x) => { o.push_str(&format!("T{}(", n)); x.show(o); o.push(')') }
            T::F(x) => { o.push_str("F("); x.show(o); o.push(')') }
            T::R(x) => { o.push_str("R("); x.show(o); o.push(')') }
        }
    }
}
struct P<'a> { s: &'a [u8], i: usize }
impl<'a> P<'a> {
    fn tok(&mut self, stop: &[u8]) -> &'a str { let st = self.i; while self.i < self.s.len() && !stop.contains(&self.s[self.i]) { self.i += 1 } std::str::from_utf8(&self.s[st..self.i]).unwrap() }
    fn eat(&mut self, c: u8) { assert_eq!(self.s[self.i], c, "parse at {}", self.i); self.i += 1 }
    fn tree(&mut self) -> T {
        match self.s[self.i] {
            b's' => { self.i += 2; T::S(unhx(self.tok(b",)"))) }
            b'b' => { self.i += 1; let k: usize = self.tok(b":").parse().unwrap_or(0); self.eat(b':'); T::B(k, unhx(self.tok(b",)"))) }
            b'm' => { self.i += 1; let k: usize = self.tok(b":").parse().unwrap_or(0); self.eat(b':'); T::M(k, unhx(self.tok(b",)"))) }
            b'c' => { self.i += 2; let d = unhx(self.tok(b"@")); self.eat(b'@'); T::Cur(d, self.tok(b",)").parse().unwrap()) }
            b'd' => { self.i += 2; let a = unhx(self.tok(b",")); self.eat(b','); T::D(a, unhx(self.tok(b",)"))) }
            b'g' => { self.i += 2; let mut cs = vec![]; if self.s[self.i] == b'~' { self.i += 1; return T::G(cs) }
                      loop { cs.push(unhx(self.tok(b",)"))); if self.i < self.s.len() && self.s[self.i] == b',' && self.s.get(self.i + 1).map_or(false, |c| c.is_ascii_hexdigit() || *c == b'-') && !self.in_chain_sep() { self.i += 1 } else { break } } T::G(cs) }
            b'C' => { self.i += 2; let a = self.tree(); self.eat(b','); let b = self.tree(); self.eat(b')'); T::C(Box::new(a), Box::new(b)) }
            b'T' => { self.i += 1; let n: usize = self.tok(b"(").parse().unwrap(); self.eat(b'('); let x = self.tree(); self.eat(b')'); T::Tk(n, Box::new(x)) }
            b'F' => { self.i += 2; let x = self.tree(); self.eat(b')'); T::F(Box::new(x)) }
            b'R' => { self.i += 2; let x = self.tree(); self.eat(b')'); T::R(Box::new(x)) }
            c => panic!("bad tree char {}", c as char),
        }
    }
    // inside a g: leaf a ',' followed by a hex chunk continues the leaf; children of C are always F(..) so no ambiguity
    fn in_chain_sep(&self) -> bool { false }
}
pub fn parse_tree(s: &str) -> T { let mut p = P { s: s.as_bytes(), i: 0 }; let t = p.tree(); assert_eq!(p.i, s.len(), "trailing input in tree"); t }

// ------------------------------------------------------------------------------------------ a law-abiding foreign Buf
/// chunks() with the trait's default provided methods: the `Gen` leaf of model M4
pub struct Chunked { pub chunks: VecDeque<Vec<u8>> }
impl Buf for Chunked {
    fn remaining(&self) -> usize { self.chunks.iter().map(|c| c.len()).sum() }
    fn chunk(&self) -> &[u8] { for c in &self.chunks { if !c.is_empty() { return c } } &[] }
    fn advance(&mut self, mut cnt: usize) {
        assert!(cnt <= self.remaining(), "advance past end");
        while cnt > 0 {
            let fl = self.chunks[0].len();
            if fl <= cnt { cnt -= fl; self.chunks.pop_front(); } else { self.chunks[0].drain(..cnt); cnt = 0; }
        }
    }
}

// ------------------------------------------------------------------------------------------ inspection
pub trait Inspect: Buf {
    fn desc(&self, o: &mut String);
    fn set_limit_at(&mut self, _path: &[u8], _lim: usize) -> bool { false }
}
type BoxI = Box<dyn Inspect>;
impl Inspect for &'static [u8] { fn desc(&self, o: &mut String) { o.push_str("s:"); o.push_str(&hx(self)) } }
impl Inspect for Bytes { fn desc(&self, o: &mut String) { o.push_str("b:"); o.push_str(&hx(self)) } }
impl Inspect for BytesMut { fn desc(&self, o: &mut String) { o.push_str("m:"); o.push_str(&hx(self)) } }
impl Inspect for Cursor<Vec<u8>> { fn desc(&self, o: &mut String) { o.push_str("c:"); o.push_str(&hx(self.get_ref())); o.push_str(&format!("@{}", self.position())) } }
impl Inspect for VecDeque<u8> { fn desc(&self, o: &mut String) { let (a, b) = self.as_slices(); o.push_str("d:"); o.push_str(&hx(a)); o.push(','); o.push_str(&hx(b)) } }
impl Inspect for Chunked { fn desc(&self, o: &mut String) { o.push_str("g:"); if self.chunks.is_empty() { o.push('~') } for (i, c) in self.chunks.iter().enumerate() { if i > 0 { o.push(',') } o.push_str(&hx(c)) } } }
impl Inspect for Chain<BoxI, BoxI> {
    fn desc(&self, o: &mut String) { o.push_str("C("); self.first_ref().desc(o); o.push(','); self.last_ref().desc(o); o.push(')') }
    fn set_limit_at(&mut self, path: &[u8], lim: usize) -> bool {
        match path.split_first() { None => false, Some((b'0', r)) => self.first_mut().set_limit_at(r, lim), Some((_, r)) => self.last_mut().set_limit_at(r, lim) }
    }
}
impl Inspect for Take<BoxI> {
    fn desc(&self, o: &mut String) { o.push_str(&format!("T{}(", self.limit())); self.get_ref().desc(o); o.push(')') }
    fn set_limit_at(&mut self, path: &[u8], lim: usize) -> bool {
        match path.split_first() { None => { self.set_limit(lim); true } Some((_, r)) => self.get_mut().set_limit_at(r, lim) }
    }
}
impl Inspect for BoxI {
    fn desc(&self, o: &mut String) { o.push_str("F("); (**self).desc(o); o.push(')') }
    fn set_limit_at(&mut self, path: &[u8], lim: usize) -> bool { match path.split_first() { None => false, Some((_, r)) => (**self).set_limit_at(r, lim) } }
}
impl<'a, T: Inspect> Inspect for &'a mut T {
    fn desc(&self, o: &mut String) { o.push_str("R("); (**self).desc(o); o.push(')') }
    fn set_limit_at(&mut self, path: &[u8], lim: usize) -> bool { match path.split_first() { None => false, Some((_, r)) => (**self).set_limit_at(r, lim) } }
}

fn mk_deque(a: &[u8], b: &[u8]) -> VecDeque<u8> {
    // a ring buffer whose as_slices() is exactly (a, b)
    let n = a.len() + b.len();
    let mut d: VecDeque<u8> = VecDeque::with_capacity(n.max(1));
    if b.is_empty() { d.extend(a.iter().copied()); return d; }
    let cap = d.capacity();
    for _ in 0..cap - a.len() { d.push_back(0); }
    for _ in 0..cap - a.len() { d.pop_front(); }
    d.extend(a.iter().copied()); d.extend(b.iter().copied());
    d
}
fn leak(b: &[u8]) -> &'static [u8] { Box::leak(b.to_vec().into_boxed_slice()) }
fn boxed(t: &T) -> BoxI {
    match t {
        T::S(b) => Box::new(leak(b)), T::B(k, b) => Box::new(make_bytes(*k, b)), T::M(k, b) => Box::new(make_mut(*k, b).0),
        T::Cur(b, p) => { let mut c = Cursor::new(b.clone()); c.set_position(*p); Box::new(c) }
        T::D(a, b) => Box::new(mk_deque(a, b)), T::G(cs) => Box::new(Chunked { chunks: cs.iter().cloned().collect() }),
        T::C(a, b) => Box::new(child(a).chain(child(b))), T::Tk(n, x) => Box::new(child(x).take(*n)),
        T::F(x) => Box::new(boxed(x)), T::R(_) => panic!("R only at the root"),
    }
}
pub fn boxed_pub(t: &T) -> Box<dyn Inspect> { boxed(t) }
/// children of C / T are written F(..) in the tree syntax: the Box IS the Fwd node
fn child(t: &T) -> BoxI { match t { T::F(x) => boxed(x), _ => panic!("child of C/T must be F(..)") } }

// ------------------------------------------------------------------------------------------ ops
static SENT: [u8; 3] = [0xEE; 3];
macro_rules! getters {
    ($b:expr, $name:expr, $nb:expr; fixed: $($f:ident)*; var: $($v:ident)*; tfixed: $($tf:ident)*; tvar: $($tv:ident)*; fl: $($fl:ident)*; tfl: $($tfl:ident)*) => {
        match $name {
            $(stringify!($f) => Some(format!("v:{}", $b.$f() as i128)),)*
            $(stringify!($v) => Some(format!("v:{}", $b.$v($nb) as i128)),)*
            $(stringify!($tf) => Some(match $b.$tf() { Ok(v) => format!("v:{}", v as i128), Err(e) => format!("err:{}:{}", e.requested, e.available) }),)*
            $(stringify!($tv) => Some(match $b.$tv($nb) { Ok(v) => format!("v:{}", v as i128), Err(e) => format!("err:{}:{}", e.requested, e.available) }),)*
            $(stringify!($fl) => Some(format!("v:{}", $b.$fl().to_bits())),)*
            $(stringify!($tfl) => Some(match $b.$tfl() { Ok(v) => format!("v:{}", v.to_bits()), Err(e) => format!("err:{}:{}", e.requested, e.available) }),)*
            "get_u128" => Some(format!("v:{}", $b.get_u128())), "get_u128_le" => Some(format!("v:{}", $b.get_u128_le())), "get_u128_ne" => Some(format!("v:{}", $b.get_u128_ne())),
            "try_get_u128" => Some(match $b.try_get_u128() { Ok(v) => format!("v:{}", v), Err(e) => format!("err:{}:{}", e.requested, e.available) }),
            "try_get_u128_le" => Some(match $b.try_get_u128_le() { Ok(v) => format!("v:{}", v), Err(e) => format!("err:{}:{}", e.requested, e.available) }),
            "try_get_u128_ne" => Some(match $b.try_get_u128_ne() { Ok(v) => format!("v:{}", v), Err(e) => format!("err:{}:{}", e.requested, e.available) }),
            _ => None,
        }
    };
}
pub const GETTER_NAMES: &[&str] = &["get_u8","get_i8","get_u16","get_u16_le","get_u16_ne","get_i16","get_i16_le","get_i16_ne","get_u32","get_u32_le","get_u32_ne","get_i32","get_i32_le","get_i32_ne","get_u64","get_u64_le","get_u64_ne","get_i64","get_i64_le","get_i64_ne","get_u128","get_u128_le","get_u128_ne","get_i128","get_i128_le","get_i128_ne","get_uint","get_uint_le","get_uint_ne","get_int","get_int_le","get_int_ne","get_f32","get_f32_le","get_f32_ne","get_f64","get_f64_le","get_f64_ne",
 "try_get_u8","try_get_i8","try_get_u16","try_get_u16_le","try_get_u16_ne","try_get_i16","try_get_i16_le","try_get_i16_ne","try_get_u32","try_get_u32_le","try_get_u32_ne","try_get_i32","try_get_i32_le","try_get_i32_ne","try_get_u64","try_get_u64_le","try_get_u64_ne","try_get_i64","try_get_i64_le","try_get_i64_ne","try_get_u128","try_get_u128_le","try_get_u128_ne","try_get_i128","try_get_i128_le","try_get_i128_ne","try_get_uint","try_get_uint_le","try_get_uint_ne","try_get_int","try_get_int_le","try_get_int_ne","try_get_f32","try_get_f32_le","try_get_f32_ne","try_get_f64","try_get_f64_le","try_get_f64_ne"];
fn call_getter<B: Buf>(b: &mut B, name: &str, nb: usize) -> Option<String> {
    getters!(b, name, nb;
        fixed: get_u8 get_i8 get_u16 get_u16_le get_u16_ne get_i16 get_i16_le get_i16_ne get_u32 get_u32_le get_u32_ne get_i32 get_i32_le get_i32_ne get_u64 get_u64_le get_u64_ne get_i64 get_i64_le get_i64_ne get_i128 get_i128_le get_i128_ne;
        var: get_uint get_uint_le get_uint_ne get_int get_int_le get_int_ne;
        tfixed: try_get_u8 try_get_i8 try_get_u16 try_get_u16_le try_get_u16_ne try_get_i16 try_get_i16_le try_get_i16_ne try_get_u32 try_get_u32_le try_get_u32_ne try_get_i32 try_get_i32_le try_get_i32_ne try_get_u64 try_get_u64_le try_get_u64_ne try_get_i64 try_get_i64_le try_get_i64_ne try_get_i128 try_get_i128_le try_get_i128_ne;
        tvar: try_get_uint try_get_uint_le try_get_uint_ne try_get_int try_get_int_le try_get_int_ne;
        fl: get_f32 get_f32_le get_f32_ne get_f64 get_f64_le get_f64_ne;
        tfl: try_get_f32 try_get_f32_le try_get_f32_ne try_get_f64 try_get_f64_le try_get_f64_ne)
}

fn one_op<B: Inspect>(slot: &mut Option<B>, op: &str) -> String {
    let f: Vec<&str> = op.split(':').collect();
    let num = |i: usize| -> usize { f.get(i).and_then(|x| x.parse().ok()).unwrap_or(0) };
    let b = slot.as_mut().unwrap();
    match f[0] {
        "rem" => b.remaining().to_string(),
        "has" => (b.has_remaining() as u8).to_string(),
        "chunk" => hx(b.chunk()),
        "cv" => {
            let n = num(1);
            let mut dst: Vec<IoSlice> = (0..n).map(|_| IoSlice::new(&SENT)).collect();
            let cnt = b.chunks_vectored(&mut dst);
            let shown = cnt.min(n);
            let untouched = dst[shown..].iter().all(|s| s.as_ptr() == SENT.as_ptr() && s.len() == SENT.len());
            format!("{}/{}/u{}", cnt, if shown == 0 { "~".to_string() } else { dst[..shown].iter().map(|s| hx(s)).collect::<Vec<_>>().join(",") }, untouched as u8)
        }
        "adv" => { b.advance(num(1)); "ok".into() }
        "cts" => { let mut d = vec![0xCCu8; num(1)]; b.copy_to_slice(&mut d); hx(&d) }
        "tcs" => { let mut d = vec![0xCCu8; num(1)]; match b.try_copy_to_slice(&mut d) { Ok(()) => format!("ok:{}", hx(&d)), Err(e) => format!("err:{}:{}:{}", e.requested, e.available, hx(&d)) } }
        "ctb" => { let r = b.copy_to_bytes(num(1)); hx(&r) }
        "it" => {
            let mut it = IntoIter::new(slot.take().unwrap());
            let mut outs = vec![];
            let r = catch_unwind(AssertUnwindSafe(|| { for _ in 0..num(1) { outs.push(match it.next() { Some(x) => format!("{:02x}", x), None => "none".into() }); } it.size_hint() }));
            let hint = r.as_ref().ok().cloned();
            *slot = Some(it.into_inner());
            match hint { Some((lo, hi)) => format!("{}/{}:{}", if outs.is_empty() { "~".into() } else { outs.join(",") }, lo, hi.map(|h| h.to_string()).unwrap_or("none".into())), None => std::panic::resume_unwind(Box::new("iter")) }
        }
        "rd" => { let mut d = vec![0xCCu8; num(1)]; let mut r = b.reader(); match r.read(&mut d) { Ok(n) => format!("{}:{}", n, hx(&d[..n.min(d.len())])), Err(_) => "ioerr".into() } }
        "fb" => { let mut r = b.reader(); match r.fill_buf() { Ok(s) => hx(s), Err(_) => "ioerr".into() } }
        "cons" => { let mut r = b.reader(); r.consume(num(1)); "ok".into() }
        "g" => call_getter(b, f[1], num(2)).unwrap_or_else(|| "unknown-method".into()),
        "sl" => { let p = if f[1] == "-" { &b""[..] } else { f[1].as_bytes() }; if b.set_limit_at(p, num(2)) { "ok".into() } else { "nopath".into() } }
        _ => "unknown-op".into(),
    }
}
fn run<B: Inspect>(b: B, ops: &[String], o: &mut String) {
    let mut slot = Some(b);
    for op in ops {
        let r = catch_unwind(AssertUnwindSafe(|| one_op(&mut slot, op)));
        o.push(' '); o.push_str(op); o.push('=');
        match r {
            Ok(s) => { o.push_str(&s); o.push('@'); match slot.as_ref() { Some(b) => b.desc(o), None => o.push_str("lost") } }
            Err(_) => { o.push_str("panic@-"); return; }
        }
    }
}
pub fn run_case(tree: &str, ops: &[String]) -> String {
    crate::progress(&format!("{} {}", tree, ops.join(" ")));
    let t = parse_tree(tree);
    let mut o = format!("B {}", tree);
    fn root<'a>(t: &T, ops: &[String], o: &mut String) {
        match t {
            T::S(b) => run(leak(b), ops, o), T::B(k, b) => run(make_bytes(*k, b), ops, o), T::M(k, b) => run(make_mut(*k, b).0, ops, o),
            T::Cur(b, p) => { let mut c = Cursor::new(b.clone()); c.set_position(*p); run(c, ops, o) }
            T::D(a, b) => run(mk_deque(a, b), ops, o), T::G(cs) => run(Chunked { chunks: cs.iter().cloned().collect() }, ops, o),
            T::C(a, b) => run(child(a).chain(child(b)), ops, o), T::Tk(n, x) => run(child(x).take(*n), ops, o),
            T::F(x) => run(boxed(x), ops, o),
            T::R(x) => match &**x {
                T::S(b) => { let mut v = leak(b); run(&mut v, ops, o) } T::B(k, b) => { let mut v = make_bytes(*k, b); run(&mut v, ops, o) }
                T::M(k, b) => { let mut v = make_mut(*k, b).0; run(&mut v, ops, o) }
                T::Cur(b, p) => { let mut c = Cursor::new(b.clone()); c.set_position(*p); run(&mut c, ops, o) }
                T::D(a, b) => { let mut v = mk_deque(a, b); run(&mut v, ops, o) } T::G(cs) => { let mut v = Chunked { chunks: cs.iter().cloned().collect() }; run(&mut v, ops, o) }
                T::C(a, b) => { let mut v = child(a).chain(child(b)); run(&mut v, ops, o) } T::Tk(n, y) => { let mut v = child(y).take(*n); run(&mut v, ops, o) }
                T::F(y) => { let mut v = boxed(y); run(&mut v, ops, o) } T::R(_) => panic!("R(R(..))"),
            },
        }
    }
    root(&t, ops, &mut o);
    o
}

// ------------------------------------------------------------------------------------------ generators
thread_local! { static SHAPE: std::cell::Cell<u8> = std::cell::Cell::new(0); }
fn gen_leaf(rng: &mut Rng, data: &[u8]) -> T {
    match if SHAPE.with(|m| m.get()) == 1 && rng.chance(2, 3) { 7 } else { rng.below(8) } {
        0 => T::S(data.to_vec()),
        1 => T::B(rng.below(9) as usize, data.to_vec()),
        2 => T::M(rng.below(5) as usize, data.to_vec()),
        3 => { // cursor: prefix skipped by position; sometimes position beyond the end (then data must be empty)
            if data.is_empty() && rng.chance(1, 2) { let l = rng.below(4) as usize; T::Cur(rng.bytes(l), l as u64 + rng.below(3) * if rng.chance(1, 4) { 1 << 40 } else { 1 }) }
            else { let p = rng.below(4) as usize; let mut v = rng.bytes(p); v.extend_from_slice(data); T::Cur(v, p as u64) } }
        4 => { if data.is_empty() { T::D(vec![], vec![]) } else { let k = rng.range(1, data.len() as u64) as usize; T::D(data[..k].to_vec(), data[k..].to_vec()) } }
        _ => { // foreign multi-chunk buf with empty chunks sprinkled in
            let mut cs = vec![]; let mut i = 0;
            let maxc = match SHAPE.with(|m| m.get()) { 1 => 2, 2 => 700, _ => 4 };     // shape 1: many tiny chunks (more than the 16 slots adapters use internally); shape 2: large
            while i < data.len() { if rng.chance(1, 5) { cs.push(vec![]) } let k = rng.range(1, (data.len() - i).min(maxc) as u64) as usize; cs.push(data[i..i + k].to_vec()); i += k; }
            if rng.chance(1, 4) { cs.push(vec![]) }
            T::G(cs) }
    }
}
fn pick_limit(rng: &mut Rng, len: usize) -> usize {
    match rng.below(7) { 0 => 0, 1 => len, 2 => len + 1 + rng.below(3) as usize, 3 => usize::MAX, 4 => usize::MAX - rng.below(3) as usize, _ => rng.below(len as u64 + 1) as usize }
}
/// a left- or right-nested chain of `k` leaves whose denotation is `data` (more slices than the 16 an adapter's scratch array holds)
fn gen_long_chain(rng: &mut Rng, data: &[u8], k: usize) -> T {
    let mut cuts: Vec<usize> = (0..k.saturating_sub(1)).map(|_| rng.below(data.len() as u64 + 1) as usize).collect(); cuts.sort();
    let mut pieces = vec![]; let mut prev = 0; for c in cuts.iter().chain(std::iter::once(&data.len())) { pieces.push(&data[prev..*c]); prev = *c; }
    let leaf = |rng: &mut Rng, d: &[u8]| -> T { match rng.below(4) { 0 => T::S(d.to_vec()), 1 => T::B(rng.below(3) as usize, d.to_vec()), 2 => T::M(rng.below(3) as usize, d.to_vec()), _ => if d.len() >= 2 { T::D(d[..1].to_vec(), d[1..].to_vec()) } else { T::S(d.to_vec()) } } };
    let left = rng.chance(1, 2);
    let mut it: Vec<T> = pieces.iter().map(|d| leaf(rng, d)).collect();
    if left { let mut acc = it.remove(0); for x in it { acc = T::C(Box::new(T::F(Box::new(acc))), Box::new(T::F(Box::new(x)))); } acc }
    else { let mut acc = it.pop().unwrap(); while let Some(x) = it.pop() { acc = T::C(Box::new(T::F(Box::new(x))), Box::new(T::F(Box::new(acc)))); } acc }
}
/// a tree of the given depth whose denotation is `data` (Take nodes may hide extra bytes behind the limit)
fn gen_tree(rng: &mut Rng, depth: u32, data: &[u8]) -> T {
    if SHAPE.with(|m| m.get()) == 1 && depth >= 1 && data.len() >= 17 && rng.chance(1, 2) {
        // Take over (or Chain with) a long chain
        let k = rng.range(15, 40) as usize;
        return match rng.below(4) {
            0 => gen_long_chain(rng, data, k),
            1 => { let extra = rng.below(6) as usize; let mut v = data.to_vec(); v.extend(rng.bytes(extra)); T::Tk(data.len(), Box::new(T::F(Box::new(gen_long_chain(rng, &v, k))))) }
            2 => { let cut = rng.below(data.len() as u64 + 1) as usize; let extra = rng.below(6) as usize; let mut v = data[..cut].to_vec(); v.extend(rng.bytes(extra));
                   T::C(Box::new(T::F(Box::new(T::Tk(cut, Box::new(T::F(Box::new(gen_long_chain(rng, &v, k)))))))), Box::new(T::F(Box::new(gen_tree(rng, depth - 1, &data[cut..]))))) }
            _ => T::Tk(*rng.pick(&[data.len(), data.len() + 3, usize::MAX]), Box::new(T::F(Box::new(gen_long_chain(rng, data, k))))),
        };
    }
    if depth == 0 || rng.chance(1, 6) { return gen_leaf(rng, data); }
    match rng.below(9) {
        0..=3 => { let k = rng.below(data.len() as u64 + 1) as usize; let (a, b) = (gen_tree(rng, depth - 1, &data[..k]), gen_tree(rng, depth - 1, &data[k..])); T::C(Box::new(T::F(Box::new(a))), Box::new(T::F(Box::new(b)))) }
        4..=6 => { // Take: limit cuts the inner denotation, or is >= its length
            if rng.chance(1, 2) { let extra = rng.below(4) as usize; let mut v = data.to_vec(); v.extend(rng.bytes(extra)); let inner = gen_tree(rng, depth - 1, &v); T::Tk(data.len(), Box::new(T::F(Box::new(inner)))) }
            else { let inner = gen_tree(rng, depth - 1, data); let lim = match rng.below(3) { 0 => data.len(), 1 => usize::MAX, _ => data.len() + 1 + rng.below(5) as usize }; T::Tk(lim, Box::new(T::F(Box::new(inner)))) } }
        _ => T::F(Box::new(gen_tree(rng, depth - 1, data))),
    }
}
fn take_paths(t: &T, cur: &mut String, out: &mut Vec<String>) {
    match t {
        T::Tk(_, x) => { out.push(if cur.is_empty() { "-".into() } else { cur.clone() }); cur.push('0'); take_paths(x, cur, out); cur.pop(); }
        T::C(a, b) => { cur.push('0'); take_paths(a, cur, out); cur.pop(); cur.push('1'); take_paths(b, cur, out); cur.pop(); }
        T::F(x) | T::R(x) => { cur.push('0'); take_paths(x, cur, out); cur.pop(); }
        _ => {}
    }
}
fn gen_ops(rng: &mut Rng, t: &T, len: usize, nops: usize) -> Vec<String> {
    let mut ops = vec![]; let mut left = len;
    let mut paths = vec![]; take_paths(t, &mut String::new(), &mut paths);
    for _ in 0..nops {
        let k_in = |rng: &mut Rng, left: usize| -> usize { match rng.below(16) { 0 | 1 => 0, 2 | 3 => left, 4 => left + 1, 5 => left + 2 + rng.below(3) as usize, _ => rng.below(left as u64 + 1) as usize } };
        let op = match rng.below(22) {
            0 => "rem".to_string(), 1 => "chunk".into(), 2 => "has".into(),
            3 | 4 => format!("cv:{}", *rng.pick(&[0usize, 1, 2, 3, 4, 15, 16, 17, 20, 33, 64])),
            5 | 6 => { let k = k_in(rng, left); left = left.saturating_sub(k); format!("adv:{}", k) }
            7 => { let k = k_in(rng, left); left = left.saturating_sub(k); format!("cts:{}", k) }
            8 => { let k = k_in(rng, left); if k <= left { left -= k } format!("tcs:{}", k) }
            9 | 10 => { let k = k_in(rng, left); left = left.saturating_sub(k); format!("ctb:{}", k) }
            11 => { let k = rng.below(4) as usize; left = left.saturating_sub(k); format!("it:{}", k) }
            12 => { let k = k_in(rng, left); left = left.saturating_sub(k); format!("rd:{}", k) }
            13 => "fb".into(),
            14 => { let k = k_in(rng, left); left = left.saturating_sub(k); format!("cons:{}", k) }
            15 if !paths.is_empty() => { let p = rng.pick(&paths).clone(); let n = pick_limit(rng, left); left = left.min(n); format!("sl:{}:{}", p, n) }
            _ => {
                let want_fit = !rng.chance(1, 10);
                let mut pick = (*rng.pick(GETTER_NAMES), 0usize, 0usize);
                for _ in 0..12 {
                    let name = *rng.pick(GETTER_NAMES);
                    let nb = if name.contains("int") { *rng.pick(&[0usize, 1, 2, 3, 4, 5, 6, 7, 8, 8, 9]) } else { 0 };
                    let size = if name.contains("int") { nb } else if name.ends_with("u8") || name.ends_with("i8") { 1 } else if name.contains("16") { 2 } else if name.contains("32") { 4 } else if name.contains("64") { 8 } else { 16 };
                    pick = (name, nb, size);
                    if !want_fit || (size <= left && nb <= 8) { break; }
                }
                if pick.2 <= left && pick.1 <= 8 { left -= pick.2; }
                format!("g:{}:{}", pick.0, pick.1)
            }
        };
        ops.push(op);
    }
    ops
}
fn patterned(rng: &mut Rng, n: usize) -> Vec<u8> {
    (0..n).map(|_| match rng.below(6) { 0 => 0xff, 1 => 0x80, 2 => 0x7f, 3 => 0x00, _ => rng.next() as u8 }).collect()
}
/// E2: random trees x random scripts
pub fn buf_random(out: &mut dyn Write, seed: u64, n: usize, maxdepth: u32) {
    let mut rng = Rng::new(seed ^ 0xb0f);
    for _ in 0..n {
        // one case in six has many tiny chunks, one in ten is large (1 KiB .. 5 KiB; sizes at which buffers could switch strategy)
        let shape = match rng.below(30) { 0..=4 => 1u8, 5..=7 => 2, _ => 0 };
        SHAPE.with(|m| m.set(shape));
        let len = match shape { 1 => rng.range(18, 70), 2 => *rng.pick(&[1023u64, 1024, 1025, 1100, 2048, 3000, 4096, 4097, 5000]), _ => match rng.below(10) { 0 => 0, 1 | 2 | 3 => rng.range(13, 40), _ => rng.range(1, 12) } } as usize;
        let data = patterned(&mut rng, len);
        let depth = rng.below(maxdepth as u64 + 1) as u32;
        let mut t = gen_tree(&mut rng, depth, &data);
        if rng.chance(1, 5) { if let T::R(_) = t {} else { t = T::R(Box::new(t)) } }
        let nops = rng.range(1, 9) as usize;
        let ops = gen_ops(&mut rng, &t, len, nops);
        let mut s = String::new(); t.show(&mut s);
        writeln!(out, "{}", run_case(&s, &ops)).unwrap();
    }
}
/// E3: every getter x every cut of the value into <= 3 pieces x realisations x shortfalls x sign patterns
pub fn buf_codec(out: &mut dyn Write, seed: u64, reps: usize) {
    let mut rng = Rng::new(seed ^ 0xc0dec);
    let wrapf = |t: T| T::F(Box::new(t));
    for name in GETTER_NAMES {
        let var = name.contains("int");
        let sizes: Vec<usize> = if var { (0..=9).collect() } else { vec![if name.ends_with("u8") || name.ends_with("i8") { 1 } else if name.contains("16") { 2 } else if name.contains("32") { 4 } else if name.contains("64") { 8 } else { 16 }] };
        for &size in &sizes {
            let vsz = size.min(16);
            for rep in 0..reps {
                let tail = rng.below(3) as usize;
                let mut data = match rep % 4 { 0 => vec![0xffu8; vsz], 1 => { let mut v = vec![0u8; vsz]; if vsz > 0 { v[0] = 0x80; } v } 2 => { let mut v = vec![0u8; vsz]; if vsz > 0 { v[vsz - 1] = 0x80; } v } _ => patterned(&mut rng, vsz) };
                data.extend(rng.bytes(tail));
                let total = data.len();
                // cuts: all (i <= j) positions in 0..=min(total, vsz+1)
                let lim = total.min(vsz + 1);
                for i in 0..=lim { for j in i..=lim {
                    if (i + j + rep) % 3 != 0 && lim > 4 { continue; }      // thin out the big ones deterministically
                    let parts = [&data[..i], &data[i..j], &data[j..]];
                    let real = match rng.below(6) {
                        0 => T::G(parts.iter().map(|p| p.to_vec()).collect()),
                        1 => T::C(Box::new(wrapf(T::S(parts[0].to_vec()))), Box::new(wrapf(T::C(Box::new(wrapf(gen_leaf(&mut rng, parts[1]))), Box::new(wrapf(T::B(rng.below(9) as usize, parts[2].to_vec()))))))),
                        2 => T::C(Box::new(wrapf(T::C(Box::new(wrapf(gen_leaf(&mut rng, parts[0]))), Box::new(wrapf(gen_leaf(&mut rng, parts[1])))))), Box::new(wrapf(gen_leaf(&mut rng, parts[2])))),
                        3 => if i > 0 { T::D(data[..i].to_vec(), data[i..].to_vec()) } else { T::D(data.clone(), vec![]) },
                        4 => T::Tk(total, Box::new(wrapf(T::C(Box::new(wrapf(T::G(vec![parts[0].to_vec(), vec![], parts[1].to_vec()]))), Box::new(wrapf(T::M(rng.below(5) as usize, { let mut v = parts[2].to_vec(); v.push(7); v }))))))),
                        _ => T::R(Box::new(T::C(Box::new(wrapf(T::Cur({ let mut v = vec![9u8]; v.extend_from_slice(parts[0]); v }, 1))), Box::new(wrapf(T::G(vec![parts[1].to_vec(), parts[2].to_vec()])))))),
                    };
                    let mut s = String::new(); real.show(&mut s);
                    let ops = vec![format!("g:{}:{}", name, size), "rem".to_string()];
                    writeln!(out, "{}", run_case(&s, &ops)).unwrap();
                } }
                // shortfalls: 0..vsz-1 bytes available
                for have in 0..vsz {
                    if vsz > 4 && (have + rep) % 2 == 1 { continue; }
                    let d = &data[..have];
                    let k = rng.below(have as u64 + 1) as usize;
                    let real = match rng.below(3) { 0 => gen_leaf(&mut rng, d), 1 => T::C(Box::new(wrapf(gen_leaf(&mut rng, &d[..k]))), Box::new(wrapf(gen_leaf(&mut rng, &d[k..])))), _ => wrapf(T::Tk(have, Box::new(wrapf(gen_leaf(&mut rng, &data))))) };
                    let mut s = String::new(); real.show(&mut s);
                    let ops = vec![format!("g:{}:{}", name, size), "rem".to_string(), "chunk".to_string()];
                    writeln!(out, "{}", run_case(&s, &ops)).unwrap();
                }
            }
        }
    }
}
/// replay: lines "tree op op op" on stdin
pub fn buf_replay(out: &mut dyn Write) {
    let stdin = std::io::stdin();
    for line in stdin.lock().lines() {
        let line = line.unwrap(); let f: Vec<&str> = line.split_whitespace().collect();
        if f.is_empty() { continue; }
        let (tree, ops) = if f[0] == "B" { (f[1], &f[2..]) } else { (f[0], &f[1..]) };
        let ops: Vec<String> = ops.iter().map(|o| o.split('=').next().unwrap().to_string()).collect();
        writeln!(out, "{}", run_case(tree, &ops)).unwrap();
    }
}

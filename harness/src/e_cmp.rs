//! E5/cmp: every comparison impl of Bytes / BytesMut called through fully-qualified trait syntax (so method
//! resolution cannot pick a neighbouring impl), on every pair of a universe of byte strings, both operand orders.
//! Line format:  K <trait> <Self> <Rhs> <lrepr> <rrepr> <xhex> <yhex> <result>     H <repr> <xhex> <same 0/1> <map 0/1>
use crate::reprs::*;
use crate::rng::{hex, Rng};
use bytes::{Bytes, BytesMut};
use std::borrow::Borrow;
use std::cmp::Ordering;
use std::collections::HashMap;
use std::hash::{Hash, Hasher};
use std::io::Write;

pub const TABLE: &[(&str, &str, &str)] = &[
    ("Hash", "Bytes", ""), ("Borrow", "Bytes", "[u8]"), ("PartialEq", "Bytes", ""), ("PartialOrd", "Bytes", ""), ("Ord", "Bytes", ""), ("Eq", "Bytes", ""),
    ("PartialEq", "Bytes", "[u8]"), ("PartialOrd", "Bytes", "[u8]"), ("PartialEq", "[u8]", "Bytes"), ("PartialOrd", "[u8]", "Bytes"),
    ("PartialEq", "Bytes", "str"), ("PartialOrd", "Bytes", "str"), ("PartialEq", "str", "Bytes"), ("PartialOrd", "str", "Bytes"),
    ("PartialEq", "Bytes", "Vec<u8>"), ("PartialOrd", "Bytes", "Vec<u8>"), ("PartialEq", "Vec<u8>", "Bytes"), ("PartialOrd", "Vec<u8>", "Bytes"),
    ("PartialEq", "Bytes", "String"), ("PartialOrd", "Bytes", "String"), ("PartialEq", "String", "Bytes"), ("PartialOrd", "String", "Bytes"),
    ("PartialEq", "&[u8]", "Bytes"), ("PartialOrd", "&[u8]", "Bytes"), ("PartialEq", "&str", "Bytes"), ("PartialOrd", "&str", "Bytes"),
    ("PartialEq", "Bytes", "&'a T"), ("PartialOrd", "Bytes", "&'a T"),
    ("PartialEq", "BytesMut", ""), ("PartialOrd", "BytesMut", ""), ("Ord", "BytesMut", ""), ("Eq", "BytesMut", ""), ("Hash", "BytesMut", ""),
    ("Borrow", "BytesMut", "[u8]"), ("BorrowMut", "BytesMut", "[u8]"),
    ("PartialEq", "BytesMut", "[u8]"), ("PartialOrd", "BytesMut", "[u8]"), ("PartialEq", "[u8]", "BytesMut"), ("PartialOrd", "[u8]", "BytesMut"),
    ("PartialEq", "BytesMut", "str"), ("PartialOrd", "BytesMut", "str"), ("PartialEq", "str", "BytesMut"), ("PartialOrd", "str", "BytesMut"),
    ("PartialEq", "BytesMut", "Vec<u8>"), ("PartialOrd", "BytesMut", "Vec<u8>"), ("PartialEq", "Vec<u8>", "BytesMut"), ("PartialOrd", "Vec<u8>", "BytesMut"),
    ("PartialEq", "BytesMut", "String"), ("PartialOrd", "BytesMut", "String"), ("PartialEq", "String", "BytesMut"), ("PartialOrd", "String", "BytesMut"),
    ("PartialEq", "BytesMut", "&'a T"), ("PartialOrd", "BytesMut", "&'a T"),
    ("PartialEq", "&[u8]", "BytesMut"), ("PartialOrd", "&[u8]", "BytesMut"), ("PartialEq", "&str", "BytesMut"), ("PartialOrd", "&str", "BytesMut"),
    ("PartialEq", "Bytes", "BytesMut"), ("PartialEq", "BytesMut", "Bytes"),
];
pub fn table(out: &mut dyn Write) { for (a, b, c) in TABLE { writeln!(out, "{}|{}|{}", a, b, c).unwrap(); } }

fn ord(o: Option<Ordering>) -> &'static str { match o { Some(Ordering::Less) => "lt", Some(Ordering::Equal) => "eq", Some(Ordering::Greater) => "gt", None => "none" } }
fn b01(b: bool) -> &'static str { if b { "1" } else { "0" } }
fn hash_of<T: Hash + ?Sized>(t: &T) -> u64 { let mut h = std::collections::hash_map::DefaultHasher::new(); t.hash(&mut h); h.finish() }

macro_rules! eqord {
    ($o:expr, $x:expr, $y:expr, $lr:expr, $rr:expr, $L:ty, $R:ty, $ln:expr, $rn:expr, $l:expr, $r:expr) => {{
        writeln!($o, "K PartialEq {} {} {} {} {} {} {}", $ln, $rn, $lr, $rr, hex($x), hex($y), b01(<$L as PartialEq<$R>>::eq($l, $r))).unwrap();
        writeln!($o, "K PartialEq!ne {} {} {} {} {} {} {}", $ln, $rn, $lr, $rr, hex($x), hex($y), b01(!<$L as PartialEq<$R>>::ne($l, $r))).unwrap();
        writeln!($o, "K PartialOrd {} {} {} {} {} {} {}", $ln, $rn, $lr, $rr, hex($x), hex($y), ord(<$L as PartialOrd<$R>>::partial_cmp($l, $r))).unwrap();
        writeln!($o, "K PartialOrd!lt {} {} {} {} {} {} {}", $ln, $rn, $lr, $rr, hex($x), hex($y), b01(<$L as PartialOrd<$R>>::lt($l, $r))).unwrap();
        writeln!($o, "K PartialOrd!ge {} {} {} {} {} {} {}", $ln, $rn, $lr, $rr, hex($x), hex($y), b01(<$L as PartialOrd<$R>>::ge($l, $r))).unwrap();
    }};
}
fn one_pair(o: &mut dyn Write, x: &[u8], y: &[u8], kx: usize, ky: usize) {
    let (bn, mn) = (BYTES_REPR_NAMES[kx % N_BYTES_REPRS], MUT_REPR_NAMES[kx % N_MUT_REPRS]);
    let (bn2, mn2) = (BYTES_REPR_NAMES[ky % N_BYTES_REPRS], MUT_REPR_NAMES[ky % N_MUT_REPRS]);
    // every other pair: operands that ALIAS one buffer (same start address, different lengths; clones) where the contents allow it
    let alias = (kx / 3) % 2 == 0;
    let (bx, by) = if alias && y.len() <= x.len() && &x[..y.len()] == y { let bx = make_bytes(kx, x); let by = if y.len() == x.len() { bx.clone() } else { bx.slice(..y.len()) }; (bx, by) }
                   else if alias && x.len() < y.len() && &y[..x.len()] == x { let by = make_bytes(ky, y); let bx = by.slice(..x.len()); (bx, by) }
                   else { (make_bytes(kx, x), make_bytes(ky, y)) };
    let bn = if alias { "aliased" } else { bn }; let bn2 = if alias { "aliased" } else { bn2 };
    let (mx, _kx) = make_mut(kx, x); let (my, _ky) = make_mut(ky, y);
    let vy: Vec<u8> = y.to_vec(); let vx: Vec<u8> = x.to_vec();
    let sx: &[u8] = x; let sy: &[u8] = y;
    // self
    eqord!(o, x, y, bn, bn2, Bytes, Bytes, "Bytes", "Bytes", &bx, &by);
    writeln!(o, "K Ord Bytes Bytes {} {} {} {} {}", bn, bn2, hex(x), hex(y), ord(Some(<Bytes as Ord>::cmp(&bx, &by)))).unwrap();
    eqord!(o, x, y, mn, mn2, BytesMut, BytesMut, "BytesMut", "BytesMut", &mx, &my);
    writeln!(o, "K Ord BytesMut BytesMut {} {} {} {} {}", mn, mn2, hex(x), hex(y), ord(Some(<BytesMut as Ord>::cmp(&mx, &my)))).unwrap();
    // [u8], Vec<u8>, &[u8], &&[u8] (generic &'a T)
    eqord!(o, x, y, bn, "-", Bytes, [u8], "Bytes", "[u8]", &bx, sy);
    eqord!(o, x, y, "-", bn2, [u8], Bytes, "[u8]", "Bytes", sx, &by);
    eqord!(o, x, y, bn, "-", Bytes, Vec<u8>, "Bytes", "Vec<u8>", &bx, &vy);
    eqord!(o, x, y, "-", bn2, Vec<u8>, Bytes, "Vec<u8>", "Bytes", &vx, &by);
    eqord!(o, x, y, "-", bn2, &[u8], Bytes, "&[u8]", "Bytes", &sx, &by);
    eqord!(o, x, y, bn, "-", Bytes, &[u8], "Bytes", "&'a_T=[u8]", &bx, &sy);
    eqord!(o, x, y, bn, "-", Bytes, &Vec<u8>, "Bytes", "&'a_T=Vec<u8>", &bx, &&vy);
    eqord!(o, x, y, mn, "-", BytesMut, [u8], "BytesMut", "[u8]", &mx, sy);
    eqord!(o, x, y, "-", mn2, [u8], BytesMut, "[u8]", "BytesMut", sx, &my);
    eqord!(o, x, y, mn, "-", BytesMut, Vec<u8>, "BytesMut", "Vec<u8>", &mx, &vy);
    eqord!(o, x, y, "-", mn2, Vec<u8>, BytesMut, "Vec<u8>", "BytesMut", &vx, &my);
    eqord!(o, x, y, "-", mn2, &[u8], BytesMut, "&[u8]", "BytesMut", &sx, &my);
    eqord!(o, x, y, mn, "-", BytesMut, &[u8], "BytesMut", "&'a_T=[u8]", &mx, &sy);
    eqord!(o, x, y, mn, "-", BytesMut, &Vec<u8>, "BytesMut", "&'a_T=Vec<u8>", &mx, &&vy);
    // Bytes vs BytesMut: PartialEq only
    writeln!(o, "K PartialEq Bytes BytesMut {} {} {} {} {}", bn, mn2, hex(x), hex(y), b01(<Bytes as PartialEq<BytesMut>>::eq(&bx, &my))).unwrap();
    writeln!(o, "K PartialEq BytesMut Bytes {} {} {} {} {}", mn, bn2, hex(x), hex(y), b01(<BytesMut as PartialEq<Bytes>>::eq(&mx, &by))).unwrap();
    // str-typed partners need valid UTF-8 on THEIR side only
    if let Ok(ys) = std::str::from_utf8(y) {
        let yst: String = ys.to_string();
        eqord!(o, x, y, bn, "-", Bytes, str, "Bytes", "str", &bx, ys);
        eqord!(o, x, y, bn, "-", Bytes, String, "Bytes", "String", &bx, &yst);
        eqord!(o, x, y, bn, "-", Bytes, &str, "Bytes", "&'a_T=str", &bx, &ys);
        eqord!(o, x, y, bn, "-", Bytes, &String, "Bytes", "&'a_T=String", &bx, &&yst);
        eqord!(o, x, y, mn, "-", BytesMut, str, "BytesMut", "str", &mx, ys);
        eqord!(o, x, y, mn, "-", BytesMut, String, "BytesMut", "String", &mx, &yst);
        eqord!(o, x, y, mn, "-", BytesMut, &str, "BytesMut", "&'a_T=str", &mx, &ys);
        eqord!(o, x, y, mn, "-", BytesMut, &String, "BytesMut", "&'a_T=String", &mx, &&yst);
    }
    if let Ok(xs) = std::str::from_utf8(x) {
        let xst: String = xs.to_string();
        eqord!(o, x, y, "-", bn2, str, Bytes, "str", "Bytes", xs, &by);
        eqord!(o, x, y, "-", bn2, String, Bytes, "String", "Bytes", &xst, &by);
        eqord!(o, x, y, "-", bn2, &str, Bytes, "&str", "Bytes", &xs, &by);
        eqord!(o, x, y, "-", mn2, str, BytesMut, "str", "BytesMut", xs, &my);
        eqord!(o, x, y, "-", mn2, String, BytesMut, "String", "BytesMut", &xst, &my);
        eqord!(o, x, y, "-", mn2, &str, BytesMut, "&str", "BytesMut", &xs, &my);
    }
}
fn one_hash(o: &mut dyn Write, x: &[u8], k: usize) {
    let bx = make_bytes(k, x); let (mut mx, _k) = make_mut(k, x);
    let hs = hash_of(x);
    let mut map: HashMap<Bytes, u32> = HashMap::new(); map.insert(bx.clone(), 7);
    let mut map2: HashMap<BytesMut, u32> = HashMap::new(); map2.insert(mx.clone(), 7);
    let br: &[u8] = <Bytes as Borrow<[u8]>>::borrow(&bx);
    writeln!(o, "H Bytes {} {} {} {} {}", BYTES_REPR_NAMES[k % N_BYTES_REPRS], hex(x), b01(hash_of(&bx) == hs), b01(map.get(x) == Some(&7)), hex(br)).unwrap();
    let mr: Vec<u8> = <BytesMut as Borrow<[u8]>>::borrow(&mx).to_vec();
    let mrm: Vec<u8> = <BytesMut as std::borrow::BorrowMut<[u8]>>::borrow_mut(&mut mx).to_vec();
    writeln!(o, "H BytesMut {} {} {} {} {}", MUT_REPR_NAMES[k % N_MUT_REPRS], hex(x), b01(hash_of(&mx) == hs), b01(map2.get(x) == Some(&7)), hex(&mr)).unwrap();
    writeln!(o, "H BytesMut!borrow_mut {} {} 1 1 {}", MUT_REPR_NAMES[k % N_MUT_REPRS], hex(x), hex(&mrm)).unwrap();
}
fn universe(alpha: &[u8], maxlen: usize) -> Vec<Vec<u8>> {
    let mut out = vec![vec![]]; let mut last = vec![vec![]];
    for _ in 0..maxlen { let mut next = vec![]; for s in &last { for &a in alpha { let mut t = s.clone(); t.push(a); next.push(t); } } out.extend(next.iter().cloned()); last = next; }
    out
}
pub fn cmp_cases(out: &mut dyn Write, seed: u64, n: usize, shard: usize, nshards: usize) {
    let mut rng = Rng::new(seed ^ 0xc3b);
    // exhaustive: all pairs of strings of length <= 3 over {00, 'a', 7f, ff} (ff: non-UTF-8 where the type allows)
    let u = universe(&[0x00, b'a', 0x7f, 0xff], 3);
    let mut idx = 0usize;
    for x in &u { for y in &u { idx += 1; if idx % nshards != shard { continue; } one_pair(out, x, y, idx + seed as usize, idx / 7 + seed as usize); } }
    for (i, x) in u.iter().enumerate() { if i % nshards == shard { for k in 0..(N_BYTES_REPRS.max(N_MUT_REPRS)) { one_hash(out, x, k); } } }
    // random longer: prefixes, common prefixes, non-UTF-8
    for i in 0..n {
        if i % nshards != shard { rng.next(); continue; }
        // one pair in twelve is long (1 KB .. 5 KB): differences only near the end, after a long common prefix
        let len = if rng.chance(1, 12) { *rng.pick(&[1000u64, 1024, 1025, 4096, 4097, 5000]) } else { rng.range(0, 24) } as usize;
        let ascii = rng.chance(1, 2);
        let x: Vec<u8> = (0..len).map(|_| if ascii { (rng.next() % 128) as u8 } else { rng.next() as u8 }).collect();
        let y: Vec<u8> = match rng.below(5) {
            0 => x.clone(), 1 => x[..rng.below(len as u64 + 1) as usize].to_vec(),
            2 => { let mut v = x.clone(); v.push(rng.next() as u8 % if ascii { 128 } else { 255 }); v }
            3 => { let mut v = x.clone(); if !v.is_empty() { let k = if len > 100 && rng.chance(2, 3) { len - 1 - rng.below(3) as usize } else { rng.below(len as u64) as usize }; v[k] = v[k].wrapping_add(1) % if ascii { 128 } else { 255 }; } v }
            _ => (0..rng.range(0, 24)).map(|_| if ascii { (rng.next() % 128) as u8 } else { rng.next() as u8 }).collect(),
        };
        one_pair(out, &x, &y, rng.next() as usize, rng.next() as usize);
        one_hash(out, &x, rng.next() as usize);
    }
}

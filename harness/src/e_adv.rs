//! Engine E8: fault injection.  `Liar` is a safe `Buf` over an honest segmented buffer whose answers are perturbed by seeded faults
//! (remaining: 0 / +k / -k / huge / panic; chunk: empty / shorter / longer / other segment / panic; advance: ignored / panic;
//! chunks_vectored: wrong count / fewer / more slices / panic).  EVERY reply it gives is logged; the log is the adversary script the
//! model M6 replays (modelrun adv), so outcome, data and the number/arguments of the calls are compared exactly.
//! Memory safety is observed directly: ledger (layout-exact frees, double frees, red zones, leak after unwinding), guard bytes.
//! Lines:  Z op=.. tree=.. R=.. C=.. A=.. V=.. out=.. data=.. ctr=.. viol=..      (Buf consumers)
//!         Y kind=.. ...                                                          (iterators / owners / serde: direct checks)
use crate::ledger::{self, tr, untracked, Ev};
use crate::rng::{hex, Rng};
use bytes::{Buf, BufMut, Bytes, BytesMut};
use std::cell::{Cell, RefCell};
use std::io::{IoSlice, Read, Write};
use std::panic::{catch_unwind, AssertUnwindSafe};
use std::rc::Rc;

pub const POOL_LEN: usize = 8192;
// no pool byte is 0xEE: the memory around every slice the liar hands out is filled with 0xEE, so an 0xEE in a result is an out-of-bounds read
static POOL: [u8; POOL_LEN] = { let mut p = [0u8; POOL_LEN]; let mut i = 0; while i < POOL_LEN { let b = ((i * 31 + 7) & 0xff) as u8; p[i] = if b == 0xEE { 0x11 } else { b }; i += 1; } p };
fn pool(off: usize, len: usize) -> &'static [u8] { &POOL[off..off + len] }

#[derive(Default)]
struct Log { r: Vec<Option<usize>>, c: Vec<Option<(usize, usize)>>, a: Vec<(usize, bool)>, v: Vec<Option<(usize, Vec<(usize, usize)>)>> }
struct State { segs: Vec<(usize, usize)>, seg: usize, pos: usize, rng: Rng, fault_pct: u64, log: Log, calls: usize, top: usize }
const ARENA: usize = 1 << 18;
static mut ARENA_BUF: [u8; ARENA] = [0xEE; ARENA];
#[allow(static_mut_refs)]
fn arena() -> &'static mut [u8; ARENA] { unsafe { &mut *std::ptr::addr_of_mut!(ARENA_BUF) } }
struct Liar(Rc<RefCell<State>>);
fn big(rng: &mut Rng) -> usize { if rng.chance(1, 2) { usize::MAX - rng.below(3) as usize } else { (isize::MAX as usize) + 1 + rng.below(3) as usize } }
impl State {
    fn honest_remaining(&self) -> usize { let mut n = 0; for (i, s) in self.segs.iter().enumerate() { if i == self.seg { n += s.1 - self.pos } else if i > self.seg { n += s.1 } } n }
    fn skip_empty(&mut self) { while self.seg < self.segs.len() && self.pos >= self.segs[self.seg].1 { self.seg += 1; self.pos = 0; } }
    fn honest_chunk(&mut self) -> (usize, usize) { self.skip_empty(); if self.seg < self.segs.len() { let s = self.segs[self.seg]; (s.0 + self.pos, s.1 - self.pos) } else { (0, 0) } }
    fn honest_advance(&mut self, mut cnt: usize) { while cnt > 0 { self.skip_empty(); if self.seg >= self.segs.len() { return; } let left = self.segs[self.seg].1 - self.pos; let k = left.min(cnt); self.pos += k; cnt -= k; } }
    /// a private copy of pool[off..off+len] with 64 bytes of 0xEE on both sides (the arena never reallocates; it outlives every use of the slice)
    fn serve(&mut self, off: usize, len: usize) -> &'static [u8] {
        let a = arena(); let start = self.top + 64; if start + len + 64 > a.len() { return pool(off, len); }
        a[start..start + len].copy_from_slice(pool(off, len)); self.top = start + len;
        unsafe { std::slice::from_raw_parts(a.as_ptr().add(start), len) }
    }
    fn fault(&mut self) -> bool { let p = self.fault_pct; self.rng.chance(p, 100) }
    /// a liar can also keep a consumer looping forever (allowed: not a memory-safety matter); the harness ends that by a panic after 300 calls
    fn tired(&mut self) -> bool { self.calls += 1; self.calls > 300 }
}
impl Buf for Liar {
    fn remaining(&self) -> usize {
        let mut s = self.0.borrow_mut(); let h = s.honest_remaining();
        let ans = if s.tired() { None } else if s.fault() { match s.rng.below(6) { 0 => None, 1 => Some(0), 2 => Some(h + 1 + s.rng.below(40) as usize), 3 => Some(h.saturating_sub(1 + s.rng.below(8) as usize)), 4 => Some(big(&mut s.rng)), _ => Some(s.rng.below(64) as usize) } } else { Some(h) };
        untracked(|| s.log.r.push(ans));
        match ans { Some(n) => n, None => { drop(s); panic!("liar: remaining") } }
    }
    fn chunk(&self) -> &[u8] {
        let mut s = self.0.borrow_mut(); let (off, len) = s.honest_chunk();
        let ans = if s.tired() { None } else if s.fault() { match s.rng.below(6) { 0 => None, 1 => Some((off, 0)), 2 => Some((off, len / 2)), 3 => Some((off, (len + 1 + s.rng.below(300) as usize).min(POOL_LEN - off))), 4 => { let o = s.rng.below(4000) as usize; Some((o, s.rng.below(600) as usize)) } _ => Some((off, len.min(1))) } } else { Some((off, len)) };
        untracked(|| s.log.c.push(ans));
        match ans { Some((o, l)) => s.serve(o, l), None => { drop(s); panic!("liar: chunk") } }
    }
    fn advance(&mut self, cnt: usize) {
        let mut s = self.0.borrow_mut();
        let (p, ignore) = if s.tired() { (true, false) } else if s.fault() { match s.rng.below(3) { 0 => (true, false), 1 => (false, true), _ => (false, false) } } else { (false, false) };
        untracked(|| s.log.a.push((cnt, p)));
        if p { drop(s); panic!("liar: advance") }
        if !ignore { s.honest_advance(cnt) }
    }
    fn chunks_vectored<'a>(&'a self, dst: &mut [IoSlice<'a>]) -> usize {
        let mut s = self.0.borrow_mut();
        // honest answer: the rest of the segments
        let mut hs: Vec<(usize, usize)> = untracked(|| { let mut v = vec![]; let (o, l) = s.honest_chunk(); if l > 0 { v.push((o, l)); } for i in s.seg + 1..s.segs.len() { if s.segs[i].1 > 0 { v.push(s.segs[i]) } } v });
        let mut claim = hs.len().min(dst.len());
        let mut panic_ = false;
        if s.fault() { match s.rng.below(6) { 0 => panic_ = true, 1 => claim = claim + 1 + s.rng.below(20) as usize, 2 => claim = claim / 2, 3 => untracked(|| { let o = s.rng.below(4000) as usize; let l = s.rng.below(500) as usize; hs.insert(0, (o, l)); }), 4 => untracked(|| hs.truncate(1)), _ => claim = big(&mut s.rng) } }
        let nw = hs.len().min(dst.len());
        let ans = if panic_ { None } else { Some((claim, untracked(|| hs[..nw].to_vec()))) };
        untracked(|| s.log.v.push(ans.clone()));
        if panic_ { drop(s); panic!("liar: chunks_vectored") }
        for i in 0..nw { dst[i] = IoSlice::new(s.serve(hs[i].0, hs[i].1)); }
        claim
    }
}

#[derive(Clone, Debug)]
enum T { A, G(usize, usize), Take(usize, Box<T>), Chain(Box<T>, Box<T>) }
fn spec(t: &T, o: &mut String) { match t { T::A => o.push('A'), T::G(off, len) => o.push_str(&format!("G{}:{}", off, len)), T::Take(l, x) => { o.push_str(&format!("T{}(", l)); spec(x, o); o.push(')') } T::Chain(a, b) => { o.push_str("C("); spec(a, o); o.push(','); spec(b, o); o.push(')') } } }
fn build(t: &T, st: &Rc<RefCell<State>>) -> Box<dyn Buf> {
    match t { T::A => Box::new(Liar(st.clone())), T::G(off, len) => Box::new(pool(*off, *len)), T::Take(l, x) => Box::new(build(x, st).take(*l)), T::Chain(a, b) => Box::new(build(a, st).chain(build(b, st))) }
}
fn gen_tree(rng: &mut Rng, depth: u32) -> T {
    if depth == 0 || rng.chance(2, 5) { return if rng.chance(4, 5) { T::A } else { T::G(rng.below(2000) as usize, rng.below(24) as usize) } }
    match rng.below(3) { 0 => T::Take(lim(rng), Box::new(gen_tree(rng, depth - 1))), 1 => T::Chain(Box::new(gen_tree(rng, depth - 1)), Box::new(gen_tree(rng, depth - 1))), _ => T::Take(lim(rng), Box::new(T::A)) }
}
fn lim(rng: &mut Rng) -> usize { match rng.below(8) { 0 => 0, 1 => usize::MAX, 2 => rng.below(4) as usize, _ => rng.below(120) as usize } }
fn has_adv(t: &T) -> bool { match t { T::A => true, T::G(..) => false, T::Take(_, x) => has_adv(x), T::Chain(a, b) => has_adv(a) || has_adv(b) } }

fn fmt_log(l: &Log) -> String {
    let r: Vec<String> = l.r.iter().map(|x| match x { Some(n) => n.to_string(), None => "!".into() }).collect();
    let c: Vec<String> = l.c.iter().map(|x| match x { Some((o, n)) => format!("{}:{}", o, n), None => "!".into() }).collect();
    let a: Vec<String> = l.a.iter().map(|(n, p)| format!("{}:{}", n, *p as u8)).collect();
    let v: Vec<String> = l.v.iter().map(|x| match x { Some((n, s)) => format!("{}/{}", n, s.iter().map(|(o, k)| format!("{}:{}", o, k)).collect::<Vec<_>>().join("+")), None => "!".into() }).collect();
    let j = |v: Vec<String>| if v.is_empty() { "-".to_string() } else { v.join(",") };
    format!("R={} C={} A={} V={}", j(r), j(c), j(a), if v.is_empty() { "-".into() } else { v.join(";") })
}
fn sweep(detail: &mut String) -> usize {
    let mut viol = 0;
    for e in &ledger::take_events() { match e { Ev::Free(_, sz, lsz, lal) => if lsz != sz || *lal != 1 { viol += 1; detail.push_str("wrong-layout;") }, Ev::DoubleFree(_) | Ev::DoubleFreeCtrl => { viol += 1; detail.push_str("double-free;") } Ev::BadLayoutCtrl => { viol += 1; detail.push_str("ctrl-layout;") } _ => {} } }
    if !ledger::redzones_ok() { viol += 1; detail.push_str("red-zone;") }
    let (bufs, ctrl) = ledger::live_summary();
    if !bufs.is_empty() || ctrl != 0 { viol += 1; detail.push_str(&format!("leak:{}+{};", bufs.len(), ctrl)) }
    viol
}
fn hx(b: &[u8]) -> String { untracked(|| if b.is_empty() { "-".into() } else { hex(b) }) }
fn fin(o: &str, d: &[u8]) -> (String, String) { untracked(|| (o.to_string(), hx(d))) }
fn fine(req: usize, av: usize) -> (String, String) { untracked(|| (format!("err:{}:{}", req, av), "-".to_string())) }

/// one consumer call on a freshly built tree; returns (outcome, data)
fn consume(op: &str, arg: usize, arg2: usize, mut b: Box<dyn Buf>, guard_bad: &Cell<bool>) -> (String, String) {
    fn res<T: AsRef<[u8]>>(r: Result<T, bytes::TryGetError>) -> (String, String) { match r { Ok(v) => fin("ok", v.as_ref()), Err(e) => fine(e.requested, e.available) } }
    match op {
        "g1" => res(b.try_get_u8().map(|v| v.to_be_bytes())),
        "g2" => res(b.try_get_u16().map(|v| v.to_be_bytes())),
        "g4" => res(b.try_get_u32().map(|v| v.to_be_bytes())),
        "g8" => res(b.try_get_u64().map(|v| v.to_be_bytes())),
        "g16" => res(b.try_get_u128().map(|v| v.to_be_bytes())),
        "l4" => res(b.try_get_i32_le().map(|v| v.to_le_bytes())),
        "f8" => res(b.try_get_f64().map(|v| v.to_bits().to_be_bytes())),
        "p4" => { let v = b.get_u32(); fin("ok", &v.to_be_bytes()) }
        "tcs" => { let mut d = untracked(|| vec![0u8; arg]); let r = match b.try_copy_to_slice(&mut d) { Ok(()) => fin("ok", &d), Err(e) => fine(e.requested, e.available) }; untracked(|| drop(d)); r }
        "cts" => { let mut d = untracked(|| vec![0u8; arg]); b.copy_to_slice(&mut d); let r = fin("ok", &d); untracked(|| drop(d)); r }
        "ctb" => { let r = b.copy_to_bytes(arg); let o = fin("ok", &r); drop(r); o }
        "rd" => { let mut d = untracked(|| vec![0u8; arg]); let mut rd = b.reader(); let n = rd.read(&mut d).unwrap(); untracked(|| (format!("ok:{}", n), hx(&d[..n.min(arg)]))) }
        "it" => { let mut it = bytes::buf::IntoIter::new(b); let mut out = untracked(|| Vec::with_capacity(arg + 1)); for _ in 0..arg { match it.next() { Some(x) => out.push(x), None => break } } fin("ok", &out) }
        "pbm" => { let mut m = BytesMut::with_capacity(arg); m.put_bytes(0x5a, arg2.min(arg)); m.put(b); let o = fin("ok", &m); drop(m); o }
        "pv" => { let mut v: Vec<u8> = Vec::with_capacity(arg); v.put_bytes(0x5a, arg2.min(arg)); v.put(b); let o = fin("ok", &v); drop(v); o }
        "ps" => {
            let mut region = untracked(|| vec![0xA5u8; arg + 64]);
            let r = catch_unwind(AssertUnwindSafe(|| { let mut t: &mut [u8] = &mut region[32..32 + arg]; t.put(b); arg - t.len() }));
            if region[..32].iter().any(|x| *x != 0xA5) || region[32 + arg..].iter().any(|x| *x != 0xA5) { guard_bad.set(true) }
            match r { Ok(n) => { let o = fin("ok", &region[32..32 + n]); untracked(|| drop(region)); o } Err(e) => { untracked(|| drop(region)); std::panic::resume_unwind(e) } }
        }
        "tv" => {
            // `b` is Take<Liar> (built by the caller as tree T<arg>(A)); dst has arg2 entries
            let empty: &[u8] = &[]; let mut dst: Vec<IoSlice> = untracked(|| (0..arg2).map(|_| IoSlice::new(empty)).collect());
            let n = b.chunks_vectored(&mut dst);
            let parts: Vec<String> = untracked(|| dst.iter().map(|s| hx(s)).collect());
            let o = untracked(|| (format!("ok:{}", n), if parts.is_empty() { "-".to_string() } else { parts.join("|") })); untracked(|| { drop(parts); drop(dst) }); o
        }
        _ => fin("unknown-op", &[]),
    }
}

pub fn adv(out: &mut dyn Write, seed: u64, n: usize) {
    let mut rng = Rng::new(seed ^ 0xad0e);
    const OPS: &[&str] = &["g1", "g2", "g4", "g8", "g16", "l4", "f8", "p4", "tcs", "cts", "ctb", "rd", "it", "pbm", "pv", "ps", "tv", "ctb", "ps", "pbm", "g4", "tcs"];
    for case in 0..n {
        ledger::reset(rng.chance(1, 2));
        let op = *rng.pick(OPS);
        let mut tree = if op == "tv" { T::Take(lim(&mut rng), Box::new(T::A)) } else { gen_tree(&mut rng, 3) };
        if !has_adv(&tree) { tree = T::Chain(Box::new(tree), Box::new(T::A)); }
        let nseg = rng.range(1, 5) as usize;
        let mut segs = vec![]; let mut off = rng.below(500) as usize;
        for _ in 0..nseg { let l = match rng.below(6) { 0 => 0, 1 => 1, _ => rng.below(48) as usize }; segs.push((off, l)); off += l + rng.below(9) as usize; }
        let fault_pct = *rng.pick(&[0u64, 5, 15, 30, 60]);
        let st = Rc::new(RefCell::new(State { segs, seg: 0, pos: 0, rng: rng.fork(), fault_pct, log: Log::default(), calls: 0, top: 0 }));
        let (arg, arg2) = match op { "tcs" | "cts" | "ctb" | "rd" | "it" => (match rng.below(5) { 0 => 0, 1 => rng.below(200) as usize, _ => rng.below(40) as usize }, 0), "pbm" | "pv" => (rng.below(64) as usize, rng.below(8) as usize), "ps" => (rng.below(96) as usize, 0), "tv" => (0, *rng.pick(&[0usize, 1, 2, 3, 8, 16, 17, 20])), _ => (0, 0) };
        let mut ts = String::new(); spec(&tree, &mut ts);
        crate::progress(&format!("adv case {} op={} tree={}", case, op, ts));
        let b = build(&tree, &st);
        let guard_bad = Cell::new(false);
        let r = catch_unwind(AssertUnwindSafe(|| tr(|| consume(op, arg, arg2, b, &guard_bad))));
        let (outc, data) = match r { Ok(x) => x, Err(e) => { drop(e); ("panic".to_string(), "-".to_string()) } };
        let mut detail = String::new(); let mut viol = sweep(&mut detail);
        if guard_bad.get() { viol += 1; detail.push_str("guard-bytes;") }
        if data.split('|').any(|p| p != "-" && p.as_bytes().chunks(2).any(|c| c == b"ee")) { viol += 1; detail.push_str("out-of-bounds-read(0xEE);") }
        let s = st.borrow();
        { let a = arena(); let used = (s.top + 128).min(a.len()); for b in a[..used].iter_mut() { *b = 0xEE; } }
        writeln!(out, "Z op={}:{}:{} tree={} {} out={} data={} ctr={},{},{},{} viol={} detail={}", op, arg, arg2, ts, fmt_log(&s.log), outc, data, s.log.r.len(), s.log.c.len(), s.log.a.len(), s.log.v.len(), viol, if detail.is_empty() { "-" } else { &detail }).unwrap();
    }
    ledger::reset(false);
}

// ---------------------------------------------------------------- iterators, owners
struct LiarIter { items: Vec<Option<u8>>, i: usize, hint: Option<(usize, Option<usize>)> }
impl Iterator for LiarIter {
    type Item = u8;
    fn next(&mut self) -> Option<u8> { let k = self.i; self.i += 1; match self.items.get(k) { Some(Some(b)) => Some(*b), Some(None) => panic!("liar: next"), None => None } }
    fn size_hint(&self) -> (usize, Option<usize>) { match self.hint { Some(h) => h, None => panic!("liar: size_hint") } }
}
struct LiarRefIter { inner: LiarIter }
static REFPOOL: [u8; 256] = { let mut p = [0u8; 256]; let mut i = 0; while i < 256 { p[i] = i as u8; i += 1; } p };
impl Iterator for LiarRefIter { type Item = &'static u8; fn next(&mut self) -> Option<&'static u8> { self.inner.next().map(|b| &REFPOOL[b as usize]) } fn size_hint(&self) -> (usize, Option<usize>) { self.inner.size_hint() } }
struct LiarOwner { answers: Vec<Option<(usize, usize)>>, calls: Rc<Cell<usize>>, drops: Rc<Cell<usize>> }
impl AsRef<[u8]> for LiarOwner { fn as_ref(&self) -> &[u8] { let k = self.calls.get(); self.calls.set(k + 1); match self.answers.get(k).copied().unwrap_or(Some((0, 0))) { Some((o, l)) => pool(o, l), None => panic!("liar: as_ref") } } }
impl Drop for LiarOwner { fn drop(&mut self) { self.drops.set(self.drops.get() + 1); } }
// Rc is !Send: from_owner needs Send + 'static; the harness is single-threaded here
struct SendOwner(LiarOwner); unsafe impl Send for SendOwner {}
impl AsRef<[u8]> for SendOwner { fn as_ref(&self) -> &[u8] { self.0.as_ref() } }

pub fn adv_iter(out: &mut dyn Write, seed: u64, n: usize) {
    let mut rng = Rng::new(seed ^ 0x17e8);
    for case in 0..n {
        ledger::reset(rng.chance(1, 2));
        let kind = *rng.pick(&["ext", "extref", "fromiter-bm", "fromiter-b", "owner", "ext", "owner"]);
        crate::progress(&format!("adv-iter case {} {}", case, kind));
        let mut detail = String::new();
        if kind == "owner" {
            let k = rng.range(1, 3) as usize;
            let answers: Vec<Option<(usize, usize)>> = (0..k).map(|i| if rng.chance(if i == 0 { 1 } else { 0 }, 6) { None } else { Some((rng.below(3000) as usize, match rng.below(4) { 0 => 0, _ => rng.below(200) as usize })) }).collect();
            let calls = Rc::new(Cell::new(0)); let drops = Rc::new(Cell::new(0));
            let o = SendOwner(LiarOwner { answers: answers.clone(), calls: calls.clone(), drops: drops.clone() });
            let mut bad = String::new();
            let r = catch_unwind(AssertUnwindSafe(|| tr(|| {
                let b = Bytes::from_owner(o);
                // use the view the way safe code can: read, slice, clone, convert
                let first = untracked(|| b.to_vec());
                let c = b.clone(); let s = b.slice(..b.len() / 2); let v: Vec<u8> = c.into(); let m: BytesMut = s.into();
                let ok = v == first && m[..] == first[..first.len() / 2];
                drop(v); drop(m); drop(b); (first, ok)
            })));
            let outc = match &r { Ok((first, ok)) => { match answers[0] { Some((o, l)) => { if &first[..] != pool(o, l) { bad.push_str("view-differs-from-first-answer;") } } None => bad.push_str("returned-although-as_ref-panicked;") } if !ok { bad.push_str("derived-handles-differ;") } "ok" } Err(_) => { if answers[0].is_some() { bad.push_str("unexpected-panic;") } "panic" } };
            if calls.get() != 1 { bad.push_str(&format!("as_ref-calls:{};", calls.get())) }
            if drops.get() != 1 { bad.push_str(&format!("owner-drops:{};", drops.get())) }
            drop(r);
            let viol = sweep(&mut detail);
            let a: Vec<String> = answers.iter().map(|x| match x { Some((o, l)) => format!("{}:{}", o, l), None => "!".into() }).collect();
            writeln!(out, "Y kind=owner answers={} out={} calls={} drops={} bad={} viol={} detail={}", a.join(","), outc, calls.get(), drops.get(), if bad.is_empty() { "-" } else { &bad }, viol, if detail.is_empty() { "-" } else { &detail }).unwrap();
            continue;
        }
        let len = match rng.below(4) { 0 => 0, 1 => rng.below(300) as usize, _ => rng.below(40) as usize };
        let panic_at = if rng.chance(1, 5) { Some(rng.below(len as u64 + 1) as usize) } else { None };
        let mut items: Vec<Option<u8>> = (0..len).map(|_| Some(rng.next() as u8)).collect();
        if let Some(p) = panic_at { items.truncate(p); items.push(None); }
        let lo = match rng.below(6) { 0 => 0, 1 => len, 2 => len + 1 + rng.below(100) as usize, 3 => len / 2, 4 => big(&mut rng), _ => rng.below(64) as usize };
        let hi = match rng.below(5) { 0 => None, 1 => Some(lo), 2 => Some(0), 3 => Some(len), _ => Some(lo.saturating_add(rng.below(9) as usize)) };
        let hint = if rng.chance(1, 20) { None } else { Some((lo, hi)) };
        let pre = rng.below(6) as usize; let cap = pre + rng.below(40) as usize;
        let shared = rng.chance(1, 3);
        let it = LiarIter { items: items.clone(), i: 0, hint };
        let exp: Vec<u8> = items.iter().take_while(|x| x.is_some()).map(|x| x.unwrap()).collect();
        let mut sib_bad = false;
        let r = catch_unwind(AssertUnwindSafe(|| tr(|| match kind {
            "ext" | "extref" => {
                let mut m = BytesMut::with_capacity(cap + 8); m.put_bytes(0x5a, pre + 8);
                // optionally a sibling handle right behind/before in the same allocation: an overrun would hit it
                let head = m.split_to(8); let sib = if shared { let mut t = m.split_off(pre); t.put_bytes(0x77, 4); Some(t) } else { None };
                if kind == "ext" { m.extend(it) } else { m.extend(LiarRefIter { inner: it }) }
                let d = untracked(|| m.to_vec());
                if head[..] != [0x5a; 8] { sib_bad = true } if let Some(t) = &sib { if t[..] != [0x77; 4] { sib_bad = true } }
                drop(head); drop(sib); drop(m); d
            }
            "fromiter-bm" => { let m: BytesMut = it.collect(); let d = untracked(|| m.to_vec()); drop(m); d }
            _ => { let m: Bytes = it.collect(); let d = untracked(|| m.to_vec()); drop(m); d }
        })));
        let mut bad = String::new();
        let outc = match &r {
            Ok(d) => { let want: Vec<u8> = if kind == "ext" || kind == "extref" { let mut w = vec![0x5a; pre]; w.extend_from_slice(&exp); w } else { exp.clone() }; if *d != want { bad.push_str("wrong-contents;") } if panic_at.is_some() || hint.is_none() && (kind == "ext" || kind == "extref") { /* a panicking next()/size_hint must have propagated */ if panic_at.is_some() { bad.push_str("swallowed-panic;") } } "ok" }
            Err(_) => "panic",
        };
        if sib_bad { bad.push_str("sibling-overwritten;") }
        drop(r);
        let viol = sweep(&mut detail);
        let its: Vec<String> = items.iter().map(|x| match x { Some(b) => format!("{:02x}", b), None => "!".into() }).collect();
        writeln!(out, "Y kind={} pre={} cap={} shared={} hint={} items={} out={} bad={} viol={} detail={}", kind, pre, cap, shared as u8,
                 match hint { None => "!".into(), Some((l, h)) => format!("{}:{}", l, h.map(|x| x.to_string()).unwrap_or("-".into())) }, if its.is_empty() { "-".into() } else { its.join("") }, outc, if bad.is_empty() { "-" } else { &bad }, viol, if detail.is_empty() { "-" } else { &detail }).unwrap();
    }
    ledger::reset(false);
}

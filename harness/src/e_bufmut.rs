//! Engine E4 (implementation side): BufMut target trees built from the crate's own types, write scripts run under
//! catch_unwind, every observation and the full target state (contents, capacities, limits, guard bytes) printed per op.
//! Line format:  M <tree> init=ok@<state> <op>=<obs>@<state> ...
use crate::e_buf::{hx, unhx, run_case as _unused, parse_tree, T};
use crate::rng::Rng;
use bytes::buf::{Chain, Limit, UninitSlice};
use bytes::{Buf, BufMut, BytesMut};
use std::cell::RefCell;
use std::collections::HashMap;
use std::io::Write;
use std::mem::MaybeUninit;
use std::panic::{catch_unwind, AssertUnwindSafe};

const GUARD: usize = 8;
const GB: u8 = 0xA5;
#[derive(Clone, Debug)]
pub enum TT { V(Vec<u8>, usize), M(Vec<u8>, usize), S(Vec<u8>), U(Vec<u8>), C(Box<TT>, Box<TT>), L(usize, Box<TT>), F(Box<TT>), R(Box<TT>) }
impl TT {
    pub fn show(&self, o: &mut String) {
        match self {
            TT::V(d, c) => o.push_str(&format!("v:{}/{}", hx(d), c)), TT::M(d, c) => o.push_str(&format!("m:{}/{}", hx(d), c)),
            TT::S(r) => o.push_str(&format!("s:-|{}", hx(r))), TT::U(r) => o.push_str(&format!("u:-|{}", hx(r))),
            TT::C(a, b) => { o.push_str("C("); a.show(o); o.push(','); b.show(o); o.push(')') }
            TT::L(n, x) => { o.push_str(&format!("L{}(", n)); x.show(o); o.push(')') }
            TT::F(x) => { o.push_str("F("); x.show(o); o.push(')') } TT::R(x) => { o.push_str("R("); x.show(o); o.push(')') }
        }
    }
}
struct P<'a> { s: &'a [u8], i: usize }
impl<'a> P<'a> {
    fn tok(&mut self, stop: &[u8]) -> &'a str { let st = self.i; while self.i < self.s.len() && !stop.contains(&self.s[self.i]) { self.i += 1 } std::str::from_utf8(&self.s[st..self.i]).unwrap() }
    fn eat(&mut self, c: u8) { assert_eq!(self.s[self.i], c); self.i += 1 }
    fn tree(&mut self) -> TT {
        match self.s[self.i] {
            b'v' | b'm' => { let k = self.s[self.i]; self.i += 2; let d = unhx(self.tok(b"/")); self.eat(b'/'); let c: usize = self.tok(b",)").parse().unwrap(); if k == b'v' { TT::V(d, c) } else { TT::M(d, c) } }
            b's' | b'u' => { let k = self.s[self.i]; self.i += 2; let _w = self.tok(b"|"); self.eat(b'|'); let r = unhx(self.tok(b",)")); if k == b's' { TT::S(r) } else { TT::U(r) } }
            b'C' => { self.i += 2; let a = self.tree(); self.eat(b','); let b = self.tree(); self.eat(b')'); TT::C(Box::new(a), Box::new(b)) }
            b'L' => { self.i += 1; let n: usize = self.tok(b"(").parse().unwrap(); self.eat(b'('); let x = self.tree(); self.eat(b')'); TT::L(n, Box::new(x)) }
            b'F' => { self.i += 2; let x = self.tree(); self.eat(b')'); TT::F(Box::new(x)) }
            b'R' => { self.i += 2; let x = self.tree(); self.eat(b')'); TT::R(Box::new(x)) }
            c => panic!("bad target char {}", c as char),
        }
    }
}
pub fn parse_tt(s: &str) -> TT { let mut p = P { s: s.as_bytes(), i: 0 }; let t = p.tree(); assert_eq!(p.i, s.len()); t }

// fixed regions: backing = guard | region | guard ; registry keyed by the (constant) end address of the handle
thread_local! { static REGIONS: RefCell<HashMap<usize, (usize, usize)>> = RefCell::new(HashMap::new()); }   // end -> (base, region_len)
fn mk_region(init: &[u8]) -> (*mut u8, usize) {
    let mut v = vec![GB; GUARD]; v.extend_from_slice(init); v.extend(std::iter::repeat(GB).take(GUARD));
    let b = Box::leak(v.into_boxed_slice()); let base = b.as_mut_ptr();
    let start = unsafe { base.add(GUARD) };
    REGIONS.with(|r| r.borrow_mut().insert(start as usize + init.len(), (base as usize, init.len())));
    (start, init.len())
}
fn region_desc(tag: char, cur: *const u8, len: usize, o: &mut String) {
    let end = cur as usize + len;
    let ent = REGIONS.with(|r| r.borrow().get(&end).cloned());
    match ent {
        None => o.push_str(&format!("{}:?|?", tag)),
        Some((base, rlen)) => unsafe {
            let all = std::slice::from_raw_parts(base as *const u8, rlen + 2 * GUARD);
            let start = GUARD; let curo = cur as usize - base;
            let guards_ok = all[..GUARD].iter().all(|b| *b == GB) && all[GUARD + rlen..].iter().all(|b| *b == GB);
            o.push_str(&format!("{}:{}|{}{}", tag, hx(&all[start..curo]), hx(&all[curo..GUARD + rlen]), if guards_ok { "" } else { "!GUARD" }));
        }
    }
}

pub trait InspectMut: BufMut {
    fn desc(&self, o: &mut String);
    fn set_limit_at(&mut self, _p: &[u8], _l: usize) -> bool { false }
}
type BoxM = Box<dyn InspectMut>;
impl InspectMut for Vec<u8> { fn desc(&self, o: &mut String) { o.push_str(&format!("v:{}/{}", hx(self), self.capacity())) } }
impl InspectMut for BytesMut { fn desc(&self, o: &mut String) { o.push_str(&format!("m:{}/{}", hx(self), self.capacity())) } }
impl InspectMut for &'static mut [u8] { fn desc(&self, o: &mut String) { region_desc('s', self.as_ptr(), self.len(), o) } }
impl InspectMut for &'static mut [MaybeUninit<u8>] { fn desc(&self, o: &mut String) { region_desc('u', self.as_ptr() as *const u8, self.len(), o) } }
impl<A: InspectMut, B: InspectMut> InspectMut for Chain<A, B> {
    fn desc(&self, o: &mut String) { o.push_str("C("); self.first_ref().desc(o); o.push(','); self.last_ref().desc(o); o.push(')') }
    fn set_limit_at(&mut self, p: &[u8], l: usize) -> bool { match p.split_first() { None => false, Some((b'0', r)) => self.first_mut().set_limit_at(r, l), Some((_, r)) => self.last_mut().set_limit_at(r, l) } }
}
impl<A: InspectMut> InspectMut for Limit<A> {
    fn desc(&self, o: &mut String) { o.push_str(&format!("L{}(", self.limit())); self.get_ref().desc(o); o.push(')') }
    fn set_limit_at(&mut self, p: &[u8], l: usize) -> bool { match p.split_first() { None => { self.set_limit(l); true } Some((_, r)) => self.get_mut().set_limit_at(r, l) } }
}
impl InspectMut for BoxM {
    fn desc(&self, o: &mut String) { o.push_str("F("); (**self).desc(o); o.push(')') }
    fn set_limit_at(&mut self, p: &[u8], l: usize) -> bool { match p.split_first() { None => false, Some((_, r)) => (**self).set_limit_at(r, l) } }
}
impl<'a, T: InspectMut> InspectMut for &'a mut T {
    fn desc(&self, o: &mut String) { o.push_str("R("); (**self).desc(o); o.push(')') }
    fn set_limit_at(&mut self, p: &[u8], l: usize) -> bool { match p.split_first() { None => false, Some((_, r)) => (**self).set_limit_at(r, l) } }
}
fn mk_vec(d: &[u8], cap: usize) -> Vec<u8> { let mut v = Vec::with_capacity(cap.max(d.len())); v.extend_from_slice(d); v }
fn mk_bm(d: &[u8], cap: usize) -> BytesMut { let mut v = BytesMut::with_capacity(cap.max(d.len())); v.extend_from_slice(d); v }
fn mk_s(r: &[u8]) -> &'static mut [u8] { let (p, l) = mk_region(r); unsafe { std::slice::from_raw_parts_mut(p, l) } }
fn mk_u(r: &[u8]) -> &'static mut [MaybeUninit<u8>] { let (p, l) = mk_region(r); unsafe { std::slice::from_raw_parts_mut(p as *mut MaybeUninit<u8>, l) } }
fn boxed(t: &TT) -> BoxM {
    match t {
        TT::V(d, c) => Box::new(mk_vec(d, *c)), TT::M(d, c) => Box::new(mk_bm(d, *c)), TT::S(r) => Box::new(mk_s(r)), TT::U(r) => Box::new(mk_u(r)),
        TT::C(a, b) => Box::new(child(a).chain_mut(child(b))), TT::L(n, x) => Box::new(child(x).limit(*n)), TT::F(x) => Box::new(boxed(x)), TT::R(_) => panic!("R only at root"),
    }
}
fn child(t: &TT) -> BoxM { match t { TT::F(x) => boxed(x), _ => panic!("child of C/L must be F(..)") } }

macro_rules! putters {
    ($b:expr, $name:expr, $v:expr, $nb:expr; $($f:ident : $t:ty),*; var: $($vf:ident : $vt:ty),*) => {
        match $name {
            $(stringify!($f) => { $b.$f($v as $t); true })*
            $(stringify!($vf) => { $b.$vf($v as $vt, $nb); true })*
            "put_f32" => { $b.put_f32(f32::from_bits($v as u32)); true } "put_f32_le" => { $b.put_f32_le(f32::from_bits($v as u32)); true } "put_f32_ne" => { $b.put_f32_ne(f32::from_bits($v as u32)); true }
            "put_f64" => { $b.put_f64(f64::from_bits($v as u64)); true } "put_f64_le" => { $b.put_f64_le(f64::from_bits($v as u64)); true } "put_f64_ne" => { $b.put_f64_ne(f64::from_bits($v as u64)); true }
            _ => false,
        }
    };
}
pub const PUTTER_NAMES: &[&str] = &["put_u8","put_i8","put_u16","put_u16_le","put_u16_ne","put_i16","put_i16_le","put_i16_ne","put_u32","put_u32_le","put_u32_ne","put_i32","put_i32_le","put_i32_ne","put_u64","put_u64_le","put_u64_ne","put_i64","put_i64_le","put_i64_ne","put_u128","put_u128_le","put_u128_ne","put_i128","put_i128_le","put_i128_ne","put_uint","put_uint_le","put_uint_ne","put_int","put_int_le","put_int_ne","put_f32","put_f32_le","put_f32_ne","put_f64","put_f64_le","put_f64_ne"];
fn call_putter<B: BufMut>(b: &mut B, name: &str, v: i128, nb: usize) -> bool {
    putters!(b, name, v, nb;
        put_u8: u8, put_i8: i8, put_u16: u16, put_u16_le: u16, put_u16_ne: u16, put_i16: i16, put_i16_le: i16, put_i16_ne: i16,
        put_u32: u32, put_u32_le: u32, put_u32_ne: u32, put_i32: i32, put_i32_le: i32, put_i32_ne: i32,
        put_u64: u64, put_u64_le: u64, put_u64_ne: u64, put_i64: i64, put_i64_le: i64, put_i64_ne: i64,
        put_u128: u128, put_u128_le: u128, put_u128_ne: u128, put_i128: i128, put_i128_le: i128, put_i128_ne: i128;
        var: put_uint: u64, put_uint_le: u64, put_uint_ne: u64, put_int: i64, put_int_le: i64, put_int_ne: i64)
}
/// a source Buf for put(): built with the Buf engine's own tree builder (boxed dyn Buf through its Inspect trait)
fn one_op<B: InspectMut>(b: &mut B, op: &str) -> String {
    let f: Vec<&str> = op.split(':').collect();
    let num = |i: usize| -> usize { f.get(i).and_then(|x| x.parse().ok()).unwrap_or(0) };
    match f[0] {
        "rm" => b.remaining_mut().to_string(),
        "hrm" => (b.has_remaining_mut() as u8).to_string(),
        "cm" => b.chunk_mut().len().to_string(),
        "cw" => { // chunk_mut, write k bytes (pattern val, val+1, ..) into it, advance_mut(k); only issued with k <= chunk length by the generator; k > len: nothing written, expect advance_mut to panic
            let k = num(1); let val = num(2) as u8;
            let l = { let d: &mut UninitSlice = b.chunk_mut(); let l = d.len(); if k <= l { for i in 0..k { d.write_byte(i, val.wrapping_add(i as u8)); } } l };
            if k > l { return format!("short:{}", l); }
            unsafe { b.advance_mut(k) }; format!("ok:{}", l)
        }
        "ub" => { // UninitSlice::write_byte at an index at or beyond the end of the chunk: must panic, must not write
            let d: &mut UninitSlice = b.chunk_mut(); let l = d.len(); d.write_byte(l + num(1), num(2) as u8); format!("wrote:{}", l) }
        "uc" => { // UninitSlice::copy_from_slice with a source of the wrong length: must panic
            let src = vec![num(2) as u8; 64]; let d: &mut UninitSlice = b.chunk_mut(); let l = d.len(); let k = if num(1) == l { l + 1 } else { num(1) }; d.copy_from_slice(&src[..k.min(64)]); format!("copied:{}", l) }
        "amx" => { let l = b.chunk_mut().len(); unsafe { b.advance_mut(l + 1 + num(1)) }; "ok".into() }
        "ps" => { b.put_slice(&unhx(f[1])); "ok".into() }
        "pb" => { b.put_bytes(num(1) as u8, num(2)); "ok".into() }
        "pu" => { let src = crate::e_buf::boxed_pub(&parse_tree(&op[3..])); let mut src = src; b.put(&mut src); let mut o = String::new(); crate::e_buf::Inspect::desc(&src, &mut o); format!("ok/{}", o) }
        "p" => { let v: i128 = f[2].parse::<i128>().unwrap_or_else(|_| f[2].parse::<u128>().unwrap() as i128); if call_putter(b, f[1], v, num(3)) { "ok".into() } else { "unknown-method".into() } }
        "wr" => { let d = unhx(f[1]); let mut w = (&mut *b).writer(); match w.write(&d) { Ok(n) => { let _ = w.flush(); format!("{}", n) } Err(_) => "ioerr".into() } }
        "sl" => { let p = if f[1] == "-" { &b""[..] } else { f[1].as_bytes() }; if b.set_limit_at(p, num(2)) { "ok".into() } else { "nopath".into() } }
        _ => "unknown-op".into(),
    }
}
fn run<B: InspectMut>(mut b: B, ops: &[String], o: &mut String) {
    o.push_str(" init=ok@"); b.desc(o);
    for op in ops {
        let r = catch_unwind(AssertUnwindSafe(|| one_op(&mut b, op)));
        o.push(' '); o.push_str(op); o.push('=');
        match r { Ok(s) => { o.push_str(&s); o.push('@'); b.desc(o) } Err(_) => { o.push_str("panic@"); b.desc(o); return; } }
    }
}
/// a child held BY VALUE (not boxed): F(..) = Box, L<n>(F(..)) = Limit<Box>, C(F(..),F(..)) = Chain<Box,Box>; so that e.g. Chain<Limit<_>,_> is
/// exercised with the methods the forwarding macro does NOT forward (has_remaining_mut, put, put_bytes, put_u128.., put_int..)
macro_rules! with_node1 {
    ($t:expr, $x:ident => $body:expr) => {
        match $t {
            TT::F(y) => { let $x = boxed(y); $body }
            TT::L(n, y) => { let $x = child(y).limit(*n); $body }
            TT::C(a, b) => { let $x = child(a).chain_mut(child(b)); $body }
            TT::V(d, c) => { let $x = mk_vec(d, *c); $body } TT::M(d, c) => { let $x = mk_bm(d, *c); $body }
            TT::S(r) => { let $x = mk_s(r); $body } TT::U(r) => { let $x = mk_u(r); $body }
            TT::R(_) => panic!("R only at the root"),
        }
    };
}
pub fn run_case(tree: &str, ops: &[String]) -> String {
    crate::progress(&format!("{} {}", tree, ops.join(" ")));
    let t = parse_tt(tree);
    let mut o = format!("M {}", tree);
    fn root(t: &TT, ops: &[String], o: &mut String, by_ref: bool) {
        macro_rules! go { ($v:expr) => {{ let mut v = $v; if by_ref { run(&mut v, ops, o) } else { run(v, ops, o) } }}; }
        match t {
            TT::V(d, c) => go!(mk_vec(d, *c)), TT::M(d, c) => go!(mk_bm(d, *c)), TT::S(r) => go!(mk_s(r)), TT::U(r) => go!(mk_u(r)),
            TT::C(a, b) => with_node1!(&**a, xa => with_node1!(&**b, xb => go!(xa.chain_mut(xb)))),
            TT::L(n, x) => with_node1!(&**x, y => go!(y.limit(*n))),
            TT::F(x) => go!(boxed(x)),
            TT::R(x) => root(x, ops, o, true),
        }
    }
    root(&t, ops, &mut o, false);
    o
}

// ------------------------------------------------------------------------------------------ generators
fn wrapf(t: TT) -> TT { TT::F(Box::new(t)) }
thread_local! { /// large shape: targets and writes of 1 KB .. 5 KB (sizes at which a growable target could switch strategy)
                static LARGE: std::cell::Cell<bool> = std::cell::Cell::new(false); }
fn large() -> bool { LARGE.with(|l| l.get()) }
fn gen_leaf_t(rng: &mut Rng, growable_ok: bool) -> TT {
    let fixed = |rng: &mut Rng| -> Vec<u8> { let n = if large() && rng.chance(2, 3) { *rng.pick(&[1000u64, 1024, 1025, 2048, 4096, 4097, 5000]) } else { match rng.below(6) { 0 => 0, 1 => rng.range(13, 30), _ => rng.range(1, 12) } } as usize; (0..n).map(|i| 0x30 + (i as u8 % 10)).collect() };
    match rng.below(if growable_ok { 6 } else { 3 }) {
        0 | 1 => TT::S(fixed(rng)), 2 => TT::U(fixed(rng)),
        3 | 4 => { let l = if large() && rng.chance(1, 2) { *rng.pick(&[1000usize, 1024, 3000, 4096]) } else { rng.below(7) as usize }; let d = rng.bytes(l); TT::V(d, l + *rng.pick(&[0usize, 0, 1, 3, 8, 64, 1024])) }
        _ => { let l = if large() && rng.chance(1, 2) { *rng.pick(&[1000usize, 1024, 3000, 4096]) } else { rng.below(7) as usize }; let d = rng.bytes(l); TT::M(d, l + *rng.pick(&[0usize, 0, 1, 3, 8, 64, 1024])) }
    }
}
fn cap_of(t: &TT) -> usize { match t { TT::S(r) | TT::U(r) => r.len(), TT::V(..) | TT::M(..) => 1 << 40, TT::C(a, b) => cap_of(a).saturating_add(cap_of(b)), TT::L(n, x) => cap_of(x).min(*n), TT::F(x) | TT::R(x) => cap_of(x) } }
fn gen_tt(rng: &mut Rng, depth: u32) -> TT {
    if depth == 0 || rng.chance(1, 5) { return gen_leaf_t(rng, true); }
    match rng.below(9) {
        0..=3 => { let a = if rng.chance(4, 5) { let mut a = gen_tt(rng, depth - 1); if cap_of(&a) > 1000 { a = gen_leaf_t(rng, false) } a } else { gen_tt(rng, depth - 1) }; let b = gen_tt(rng, depth - 1); TT::C(Box::new(wrapf(a)), Box::new(wrapf(b))) }
        4..=6 => { let x = gen_tt(rng, depth - 1); let c = cap_of(&x).min(if large() { 6000 } else { 40 }); let n = match rng.below(6) { 0 => 0, 1 => c, 2 => c + 1 + rng.below(4) as usize, 3 => usize::MAX, _ => rng.below(c as u64 + 1) as usize }; TT::L(n, Box::new(wrapf(x))) }
        _ => wrapf(gen_tt(rng, depth - 1)),
    }
}
fn unbox1(t: TT) -> TT { match t { TT::F(x) => match *x { TT::F(y) => TT::F(y), o => o }, o => o } }
fn simple_fixed(t: &TT) -> bool { match t { TT::S(_) | TT::U(_) => true, TT::L(_, x) | TT::F(x) | TT::R(x) => simple_fixed(x), _ => false } }
fn limit_paths(t: &TT, cur: &mut String, out: &mut Vec<String>) {
    match t {
        TT::L(_, x) => { out.push(if cur.is_empty() { "-".into() } else { cur.clone() }); cur.push('0'); limit_paths(x, cur, out); cur.pop(); }
        TT::C(a, b) => { cur.push('0'); limit_paths(a, cur, out); cur.pop(); cur.push('1'); limit_paths(b, cur, out); cur.pop(); }
        TT::F(x) | TT::R(x) => { cur.push('0'); limit_paths(x, cur, out); cur.pop(); }
        _ => {}
    }
}
fn small_src(rng: &mut Rng, n: usize) -> String {
    let d = rng.bytes(n);
    let t = match rng.below(4) {
        0 => T::S(d), 1 => { let k = rng.below(n as u64 + 1) as usize; T::G(vec![d[..k].to_vec(), vec![], d[k..].to_vec()]) }
        2 => { let k = rng.below(n as u64 + 1) as usize; T::C(Box::new(T::F(Box::new(T::B(rng.below(9) as usize, d[..k].to_vec())))), Box::new(T::F(Box::new(T::S(d[k..].to_vec()))))) }
        _ => T::Tk(n, Box::new(T::F(Box::new(T::S({ let mut v = d.clone(); v.extend_from_slice(&[1, 2]); v }))))),
    };
    let mut s = String::new(); t.show(&mut s); s
}
pub fn bufmut_random(out: &mut dyn Write, seed: u64, n: usize, maxdepth: u32) {
    let mut rng = Rng::new(seed ^ 0xb0f3);
    for _ in 0..n {
        let depth = rng.below(maxdepth as u64 + 1) as u32;
        let lg = rng.chance(1, 10); LARGE.with(|l| l.set(lg));
        let mut t = gen_tt(&mut rng, depth);
        // half of the cases: hold the root's children by value (Chain<Limit<_>,_>, Limit<Chain<_,_>>, Chain<&mut [u8],Vec<u8>> ...)
        if rng.chance(1, 2) { t = match t { TT::C(a, b) => TT::C(Box::new(unbox1(*a)), Box::new(unbox1(*b))), TT::L(n, x) => TT::L(n, Box::new(unbox1(*x))), o => o }; }
        if rng.chance(1, 5) { t = TT::R(Box::new(t)); }
        let kmax = if lg { 3000 } else { 20 };
        let mut left = cap_of(&t).min(if lg { 6000 } else { 64 });
        let all_fixed = simple_fixed(&t);
        let mut paths = vec![]; limit_paths(&t, &mut String::new(), &mut paths);
        let nops = rng.range(1, 8) as usize; let mut ops = vec![];
        for _ in 0..nops {
            let k_in = |rng: &mut Rng, left: usize| -> usize { match rng.below(12) { 0 => 0, 1 | 2 => left.min(kmax), 3 => left.min(kmax) + 1, _ => rng.below(left.min(kmax) as u64 + 1) as usize } };
            let op = match rng.below(20) {
                0 => "rm".to_string(), 1 => "hrm".into(), 2 | 3 => "cm".into(),
                4 | 5 => { let k = rng.below(5) as usize; format!("cw:{}:{}", k, rng.below(200)) }
                6 if all_fixed => format!("amx:{}", rng.below(3)),
                6 => if rng.chance(1, 2) { format!("ub:{}:{}", rng.below(2), rng.below(256)) } else { format!("uc:{}:{}", rng.below(8), rng.below(256)) },
                7 | 8 | 9 => { let k = k_in(&mut rng, left); left = left.saturating_sub(k); format!("ps:{}", hx(&rng.bytes(k))) }
                10 | 11 => { let k = k_in(&mut rng, left); left = left.saturating_sub(k); format!("pb:{}:{}", rng.below(256), k) }
                12 | 13 => { let k = k_in(&mut rng, left); left = left.saturating_sub(k); format!("pu:{}", small_src(&mut rng, k)) }
                14 => { let k = rng.below(24) as usize; left = left.saturating_sub(k.min(left)); format!("wr:{}", hx(&rng.bytes(k))) }
                15 if !paths.is_empty() => { let p = rng.pick(&paths).clone(); let nn = match rng.below(5) { 0 => 0, 1 => usize::MAX, 2 => left + 1, _ => rng.below(left as u64 + 1) as usize }; left = left.min(nn); format!("sl:{}:{}", p, nn) }
                _ => { let name = *rng.pick(PUTTER_NAMES); let nb = if name.contains("int") { *rng.pick(&[0usize, 1, 2, 3, 4, 5, 6, 7, 8, 8, 9]) } else { 0 };
                       let v: i128 = match rng.below(6) { 0 => 0, 1 => -1, 2 => i64::MIN as i128, 3 => u64::MAX as i128, 4 => rng.next() as i128 - (1i128 << 62), _ => (rng.next() as i128) << (rng.below(64) as u32) | rng.next() as i128 };
                       left = left.saturating_sub(16.min(left)); format!("p:{}:{}:{}", name, v, nb) }
            };
            ops.push(op);
        }
        let mut s = String::new(); t.show(&mut s);
        writeln!(out, "{}", run_case(&s, &ops)).unwrap();
    }
}
/// every putter x target kinds x fill levels so that the write straddles a chunk end / triggers growth / does not fit
pub fn bufmut_codec(out: &mut dyn Write, seed: u64, reps: usize) {
    let mut rng = Rng::new(seed ^ 0xc0de2);
    for name in PUTTER_NAMES {
        let var = name.contains("int");
        let sizes: Vec<usize> = if var { (0..=9).collect() } else { vec![if name.ends_with("u8") || name.ends_with("i8") { 1 } else if name.contains("16") { 2 } else if name.contains("32") { 4 } else if name.contains("64") { 8 } else { 16 }] };
        for &size in &sizes { for rep in 0..reps {
            let v: i128 = match rep % 5 { 0 => -1, 1 => i64::MIN as i128, 2 => 0x0102030405060708090a0b0c0d0e0f10u128 as i128, 3 => (1i128 << (8 * size.min(15))) - 1, _ => ((rng.next() as i128) << 64) | rng.next() as i128 };
            let vsz = size.min(16);
            let pat = |n: usize| -> Vec<u8> { (0..n).map(|i| 0x30 + (i as u8 % 10)).collect() };
            let mut targets: Vec<TT> = vec![];
            for room in [0usize, vsz.saturating_sub(1), vsz, vsz + 3] { targets.push(TT::S(pat(room))); targets.push(TT::U(pat(room))); }
            for i in 0..=vsz.min(6) { targets.push(TT::C(Box::new(wrapf(TT::S(pat(i)))), Box::new(wrapf(TT::C(Box::new(wrapf(TT::U(pat(1)))), Box::new(wrapf(TT::S(pat(vsz + 1))))))))); }
            targets.push(TT::V(rng.bytes(3), 3)); targets.push(TT::V(vec![], 0)); targets.push(TT::M(rng.bytes(2), 2 + vsz / 2)); targets.push(TT::M(vec![], 0));
            targets.push(TT::L(vsz, Box::new(wrapf(TT::V(vec![9], 1))))); targets.push(TT::L(vsz.saturating_sub(1), Box::new(wrapf(TT::M(vec![], 4)))));
            targets.push(TT::R(Box::new(TT::C(Box::new(wrapf(TT::L(vsz / 2, Box::new(wrapf(TT::S(pat(vsz))))))), Box::new(wrapf(TT::V(vec![], 0)))))));
            targets.push(wrapf(wrapf(TT::S(pat(vsz + 1)))));
            for t in targets {
                let mut s = String::new(); t.show(&mut s);
                let ops = vec![format!("p:{}:{}:{}", name, v, size), "rm".to_string(), format!("p:{}:{}:{}", name, v ^ 0x5a5a, size)];
                writeln!(out, "{}", run_case(&s, &ops)).unwrap();
            }
        } }
    }
}
pub fn bufmut_replay(out: &mut dyn Write) {
    use std::io::BufRead;
    let stdin = std::io::stdin();
    for line in stdin.lock().lines() {
        let line = line.unwrap(); let f: Vec<&str> = line.split_whitespace().collect();
        if f.is_empty() { continue; }
        let (tree, ops) = if f[0] == "M" { (f[1], &f[2..]) } else { (f[0], &f[1..]) };
        let ops: Vec<String> = ops.iter().map(|o| o.split('=').next().unwrap().to_string()).filter(|o| o != "init").collect();
        writeln!(out, "{}", run_case(tree, &ops)).unwrap();
    }
}

//! Every way the harness knows to make a Bytes / BytesMut with given contents: the
//! representations the properties quantify over.
use bytes::{Bytes, BytesMut, BufMut};

pub enum H { B(Bytes), M(BytesMut) }
impl H {
    pub fn as_slice(&self) -> &[u8] { match self { H::B(b) => &b[..], H::M(m) => &m[..] } }
}
pub const N_BYTES_REPRS: usize = 9;
pub const N_MUT_REPRS: usize = 5;
pub const BYTES_REPR_NAMES: [&str; N_BYTES_REPRS] = ["static", "vec_exact", "vec_spare", "owner", "sliced", "promoted", "copy", "frozen_vec", "frozen_arc"];
pub const MUT_REPR_NAMES: [&str; N_MUT_REPRS] = ["mut_vec", "mut_vec_off", "mut_arc", "mut_arc_sibling", "mut_from_bytes"];

pub fn make_bytes(kind: usize, bs: &[u8]) -> Bytes {
    match kind % N_BYTES_REPRS {
        0 => Bytes::from_static(Box::leak(bs.to_vec().into_boxed_slice())),
        1 => Bytes::from(bs.to_vec().into_boxed_slice()),
        2 => { let mut v = Vec::with_capacity(bs.len() + 7); v.extend_from_slice(bs); Bytes::from(v) }
        3 => Bytes::from_owner(bs.to_vec()),
        4 => { let mut v = vec![0xAAu8; 3]; v.extend_from_slice(bs); v.extend_from_slice(&[0xBB; 2]); Bytes::from(v).slice(3..3 + bs.len()) }
        5 => { let b = Bytes::from(bs.to_vec().into_boxed_slice()); let c = b.clone(); drop(c); b }
        6 => Bytes::copy_from_slice(bs),
        7 => { let mut m = BytesMut::with_capacity(bs.len() + 5); m.put_slice(bs); m.freeze() }
        _ => { let mut m = BytesMut::with_capacity(bs.len() + 9); m.put_slice(&[1, 2]); m.put_slice(bs); let _pre = m.split_to(2); m.freeze() }
    }
}
pub fn make_mut(kind: usize, bs: &[u8]) -> (BytesMut, Option<BytesMut>) {
    match kind % N_MUT_REPRS {
        0 => (BytesMut::from(bs), None),
        1 => { let mut m = BytesMut::with_capacity(bs.len() + 4); m.put_slice(&[9, 9, 9]); m.put_slice(bs); bytes::Buf::advance(&mut m, 3); (m, None) }
        2 => { let mut m = BytesMut::with_capacity(bs.len() + 4); m.put_slice(&[7]); m.put_slice(bs); let pre = m.split_to(1); drop(pre); (m, None) }
        3 => { let mut m = BytesMut::with_capacity(bs.len() + 4); m.put_slice(&[7, 8]); m.put_slice(bs); let pre = m.split_to(2); (m, Some(pre)) }
        _ => (BytesMut::from(Bytes::from(bs.to_vec())), None),
    }
}

//! T4 (escape tables by execution) and the fmt/serde half of engine E5.
use crate::reprs::*;
use crate::rng::{hex, Rng};
use std::io::Write;

fn fmt3(h: &H) -> (String, String, String) {
    match h {
        H::B(b) => (format!("{:?}", b), format!("{:x}", b), format!("{:X}", b)),
        H::M(m) => (format!("{:?}", m), format!("{:x}", m), format!("{:X}", m)),
    }
}
fn codes(s: &str) -> String {
    if s.is_empty() { return "-".into(); }
    s.bytes().map(|c| c.to_string()).collect::<Vec<_>>().join(",")
}

/// T4: one line per byte value: the Debug / {:x} / {:X} text the CURRENT crate prints for the
/// one-byte string, Debug with its `b"` … `"` frame removed (a different frame is reported).
pub fn escapes(out: &mut dyn Write) {
    for b in 0u16..256 {
        let bs = [b as u8];
        for (ty, h) in [("bytes", H::B(make_bytes(6, &bs))), ("bytesmut", H::M(make_mut(0, &bs).0))] {
            let (d, l, u) = fmt3(&h);
            let inner = if d.len() >= 3 && d.starts_with("b\"") && d.ends_with('"') { Some(&d[2..d.len() - 1]) } else { None };
            match inner {
                Some(i) => writeln!(out, "E {} {} {} {} {}", ty, b, codes(i), codes(&l), codes(&u)).unwrap(),
                None => writeln!(out, "BADFRAME {} {} {}", ty, b, codes(&d)).unwrap(),
            }
        }
    }
}

fn emit(out: &mut dyn Write, idx: usize, bs: &[u8]) {
    let k = idx % (N_BYTES_REPRS + N_MUT_REPRS);
    let (name, h, _keep) = if k < N_BYTES_REPRS { (BYTES_REPR_NAMES[k], H::B(make_bytes(k, bs)), None) }
        else { let (m, s) = make_mut(k - N_BYTES_REPRS, bs); (MUT_REPR_NAMES[k - N_BYTES_REPRS], H::M(m), s) };
    let (d, l, u) = fmt3(&h);
    writeln!(out, "F {} {} {} {} {}", name, hex(bs), hex(d.as_bytes()), hex(l.as_bytes()), hex(u.as_bytes())).unwrap();
}

/// E5/fmt: all singles, all pairs (escape adjacency), `n` random longer strings; representation rotates.
pub fn fmt_cases(out: &mut dyn Write, seed: u64, n: usize, pairs: bool) {
    let mut idx = 0usize;
    emit(out, idx, &[]); idx += 1;
    for r in 0..(N_BYTES_REPRS + N_MUT_REPRS) { for b in 0u16..256 { emit(out, r, &[b as u8]); } }
    if pairs {
        for a in 0u16..256 { for b in 0u16..256 { emit(out, idx, &[a as u8, b as u8]); idx += 1; } }
    }
    let mut rng = Rng::new(seed);
    let special = [0u8, b'0', b'7', b'"', b'\\', b'\'', b'\n', b'\r', b'\t', 0x7f, 0x80, 0xff, b'x', b'a', b'F', 0x1f, 0x20];
    for _ in 0..n {
        let len = if rng.chance(1, 10) { rng.range(100, 600) } else { rng.range(3, 40) } as usize;
        let bs: Vec<u8> = (0..len).map(|_| if rng.chance(1, 2) { *rng.pick(&special) } else { rng.next() as u8 }).collect();
        emit(out, idx, &bs); idx += 1;
    }
}

#[cfg(feature = "serde")]
mod sd {
    use serde::de::{self, DeserializeSeed, Deserializer, SeqAccess, Visitor};
    use serde::forward_to_deserialize_any;
    #[derive(Debug)]
    pub struct SErr(pub String);
    impl std::fmt::Display for SErr { fn fmt(&self, f: &mut std::fmt::Formatter<'_>) -> std::fmt::Result { write!(f, "{}", self.0) } }
    impl std::error::Error for SErr {}
    impl serde::ser::Error for SErr { fn custom<T: std::fmt::Display>(m: T) -> Self { SErr(m.to_string()) } }
    impl de::Error for SErr { fn custom<T: std::fmt::Display>(m: T) -> Self { SErr(m.to_string()) } }
    #[derive(Clone, Copy, PartialEq, Debug)]
    pub enum Entry { Bytes, BorrowedBytes, ByteBuf, Seq(Option<usize>), Str, BorrowedStr, String }
    pub struct D<'a> { pub entry: Entry, pub data: &'a [u8] }
    struct SA<'a> { data: &'a [u8], pos: usize, hint: Option<usize> }
    struct U8D(u8);
    impl<'de> Deserializer<'de> for U8D {
        type Error = SErr;
        fn deserialize_any<V: Visitor<'de>>(self, v: V) -> Result<V::Value, SErr> { v.visit_u8(self.0) }
        forward_to_deserialize_any! { bool i8 i16 i32 i64 i128 u8 u16 u32 u64 u128 f32 f64 char str string bytes byte_buf option unit unit_struct newtype_struct seq tuple tuple_struct map struct enum identifier ignored_any }
    }
    impl<'de, 'a> SeqAccess<'de> for SA<'a> {
        type Error = SErr;
        fn next_element_seed<T: DeserializeSeed<'de>>(&mut self, seed: T) -> Result<Option<T::Value>, SErr> {
            if self.pos >= self.data.len() { return Ok(None); }
            let b = self.data[self.pos]; self.pos += 1;
            seed.deserialize(U8D(b)).map(Some)
        }
        fn size_hint(&self) -> Option<usize> { self.hint }
    }
    impl<'de> Deserializer<'de> for D<'de> {
        type Error = SErr;
        fn deserialize_any<V: Visitor<'de>>(self, v: V) -> Result<V::Value, SErr> {
            match self.entry {
                Entry::Bytes => v.visit_bytes(&self.data.to_vec()),
                Entry::BorrowedBytes => v.visit_borrowed_bytes(self.data),
                Entry::ByteBuf => v.visit_byte_buf(self.data.to_vec()),
                Entry::Seq(h) => v.visit_seq(SA { data: self.data, pos: 0, hint: h }),
                Entry::Str => v.visit_str(&String::from_utf8(self.data.to_vec()).unwrap()),
                Entry::BorrowedStr => v.visit_borrowed_str(std::str::from_utf8(self.data).unwrap()),
                Entry::String => v.visit_string(String::from_utf8(self.data.to_vec()).unwrap()),
            }
        }
        forward_to_deserialize_any! { bool i8 i16 i32 i64 i128 u8 u16 u32 u64 u128 f32 f64 char str string bytes byte_buf option unit unit_struct newtype_struct seq tuple tuple_struct map struct enum identifier ignored_any }
    }
    /// a Serializer that accepts only serialize_bytes and returns the bytes
    pub struct S;
    impl serde::Serializer for S {
        type Ok = Vec<u8>; type Error = SErr;
        type SerializeSeq = serde::ser::Impossible<Vec<u8>, SErr>; type SerializeTuple = serde::ser::Impossible<Vec<u8>, SErr>;
        type SerializeTupleStruct = serde::ser::Impossible<Vec<u8>, SErr>; type SerializeTupleVariant = serde::ser::Impossible<Vec<u8>, SErr>;
        type SerializeMap = serde::ser::Impossible<Vec<u8>, SErr>; type SerializeStruct = serde::ser::Impossible<Vec<u8>, SErr>;
        type SerializeStructVariant = serde::ser::Impossible<Vec<u8>, SErr>;
        fn serialize_bytes(self, v: &[u8]) -> Result<Vec<u8>, SErr> { Ok(v.to_vec()) }
        fn serialize_bool(self, _: bool) -> Result<Vec<u8>, SErr> { Err(SErr("bool".into())) }
        fn serialize_i8(self, _: i8) -> Result<Vec<u8>, SErr> { Err(SErr("i8".into())) }
        fn serialize_i16(self, _: i16) -> Result<Vec<u8>, SErr> { Err(SErr("i16".into())) }
        fn serialize_i32(self, _: i32) -> Result<Vec<u8>, SErr> { Err(SErr("i32".into())) }
        fn serialize_i64(self, _: i64) -> Result<Vec<u8>, SErr> { Err(SErr("i64".into())) }
        fn serialize_u8(self, _: u8) -> Result<Vec<u8>, SErr> { Err(SErr("u8".into())) }
        fn serialize_u16(self, _: u16) -> Result<Vec<u8>, SErr> { Err(SErr("u16".into())) }
        fn serialize_u32(self, _: u32) -> Result<Vec<u8>, SErr> { Err(SErr("u32".into())) }
        fn serialize_u64(self, _: u64) -> Result<Vec<u8>, SErr> { Err(SErr("u64".into())) }
        fn serialize_f32(self, _: f32) -> Result<Vec<u8>, SErr> { Err(SErr("f32".into())) }
        fn serialize_f64(self, _: f64) -> Result<Vec<u8>, SErr> { Err(SErr("f64".into())) }
        fn serialize_char(self, _: char) -> Result<Vec<u8>, SErr> { Err(SErr("char".into())) }
        fn serialize_str(self, _: &str) -> Result<Vec<u8>, SErr> { Err(SErr("str".into())) }
        fn serialize_none(self) -> Result<Vec<u8>, SErr> { Err(SErr("none".into())) }
        fn serialize_some<T: ?Sized + serde::Serialize>(self, _: &T) -> Result<Vec<u8>, SErr> { Err(SErr("some".into())) }
        fn serialize_unit(self) -> Result<Vec<u8>, SErr> { Err(SErr("unit".into())) }
        fn serialize_unit_struct(self, _: &'static str) -> Result<Vec<u8>, SErr> { Err(SErr("unit_struct".into())) }
        fn serialize_unit_variant(self, _: &'static str, _: u32, _: &'static str) -> Result<Vec<u8>, SErr> { Err(SErr("unit_variant".into())) }
        fn serialize_newtype_struct<T: ?Sized + serde::Serialize>(self, _: &'static str, _: &T) -> Result<Vec<u8>, SErr> { Err(SErr("newtype".into())) }
        fn serialize_newtype_variant<T: ?Sized + serde::Serialize>(self, _: &'static str, _: u32, _: &'static str, _: &T) -> Result<Vec<u8>, SErr> { Err(SErr("newtype_variant".into())) }
        fn serialize_seq(self, _: Option<usize>) -> Result<Self::SerializeSeq, SErr> { Err(SErr("seq".into())) }
        fn serialize_tuple(self, _: usize) -> Result<Self::SerializeTuple, SErr> { Err(SErr("tuple".into())) }
        fn serialize_tuple_struct(self, _: &'static str, _: usize) -> Result<Self::SerializeTupleStruct, SErr> { Err(SErr("tuple_struct".into())) }
        fn serialize_tuple_variant(self, _: &'static str, _: u32, _: &'static str, _: usize) -> Result<Self::SerializeTupleVariant, SErr> { Err(SErr("tuple_variant".into())) }
        fn serialize_map(self, _: Option<usize>) -> Result<Self::SerializeMap, SErr> { Err(SErr("map".into())) }
        fn serialize_struct(self, _: &'static str, _: usize) -> Result<Self::SerializeStruct, SErr> { Err(SErr("struct".into())) }
        fn serialize_struct_variant(self, _: &'static str, _: u32, _: &'static str, _: usize) -> Result<Self::SerializeStructVariant, SErr> { Err(SErr("struct_variant".into())) }
    }
}

/// E5/serde: drive every visitor entry point of both types and the serializer; print what came out.
#[cfg(feature = "serde")]
pub fn serde_cases(out: &mut dyn Write, seed: u64, n: usize) {
    use bytes::{Bytes, BytesMut};
    use sd::*;
    use serde::{Deserialize, Serialize};
    let mut rng = Rng::new(seed ^ 0x5e4de);
    let mut inputs: Vec<Vec<u8>> = vec![vec![], vec![0], vec![0xff], b"hello".to_vec(), vec![0x80, 0x81]];
    for _ in 0..n {
        let len = match rng.below(10) { 0 => rng.range(4090, 4200), 1 => rng.range(100, 300), _ => rng.range(0, 24) } as usize;
        let ascii = rng.chance(1, 2);
        inputs.push((0..len).map(|_| if ascii { (rng.next() % 128) as u8 } else { rng.next() as u8 }).collect());
    }
    for (i, bs) in inputs.iter().enumerate() {
        let is_utf8 = std::str::from_utf8(bs).is_ok();
        let hints = [None, Some(0), Some(bs.len()), Some(bs.len() / 2), Some(usize::MAX), Some(bs.len() + 5000)];
        let mut entries = vec![Entry::Bytes, Entry::BorrowedBytes, Entry::ByteBuf, Entry::Seq(hints[i % hints.len()]), Entry::Seq(hints[(i + 1) % hints.len()])];
        if is_utf8 { entries.extend([Entry::Str, Entry::BorrowedStr, Entry::String]); }
        for e in entries {
            let en = match e { Entry::Seq(h) => format!("seq:{}", h.map(|x| x.to_string()).unwrap_or("none".into())), o => format!("{:?}", o).to_lowercase() };
            let r = std::panic::catch_unwind(|| Bytes::deserialize(D { entry: e, data: bs }));
            let rs = match r { Ok(Ok(v)) => hex(&v), Ok(Err(x)) => format!("err:{}", x.0.replace(' ', "_")), Err(_) => "panic".into() };
            writeln!(out, "S bytes {} {} {}", en, hex(bs), rs).unwrap();
            let r = std::panic::catch_unwind(|| BytesMut::deserialize(D { entry: e, data: bs }));
            let rs = match r { Ok(Ok(v)) => hex(&v), Ok(Err(x)) => format!("err:{}", x.0.replace(' ', "_")), Err(_) => "panic".into() };
            writeln!(out, "S bytesmut {} {} {}", en, hex(bs), rs).unwrap();
        }
        let k = i % (N_BYTES_REPRS + N_MUT_REPRS);
        let ser = if k < N_BYTES_REPRS { make_bytes(k, bs).serialize(S) } else { make_mut(k - N_BYTES_REPRS, bs).0.serialize(S) };
        let rs = match ser { Ok(v) => hex(&v), Err(x) => format!("err:{}", x.0) };
        writeln!(out, "Z {} {} {}", if k < N_BYTES_REPRS { BYTES_REPR_NAMES[k] } else { MUT_REPR_NAMES[k - N_BYTES_REPRS] }, hex(bs), rs).unwrap();
        // serde_test token round trip (the crate's own test vocabulary)
        let leaked: &'static [u8] = Box::leak(bs.clone().into_boxed_slice());
        let ok = std::panic::catch_unwind(|| {
            serde_test::assert_tokens(&Bytes::copy_from_slice(leaked), &[serde_test::Token::Bytes(leaked)]);
            serde_test::assert_tokens(&BytesMut::from(leaked), &[serde_test::Token::Bytes(leaked)]);
            serde_test::assert_de_tokens(&Bytes::copy_from_slice(leaked), &[serde_test::Token::ByteBuf(leaked)]);
            serde_test::assert_de_tokens(&BytesMut::from(leaked), &[serde_test::Token::BorrowedBytes(leaked)]);
        }).is_ok();
        writeln!(out, "T {} {}", hex(bs), if ok { "ok" } else { "fail" }).unwrap();
    }
}

//! Engine E7: a BytesMut used as a recycling buffer for N and FACTOR*N rounds under the ledger allocator.
//! Per pattern one line:
//!   R mode=<..> m=<msg> lo=<leftover> c0=<initial capacity> k=<retention> freeze=<0|1> rt=<roundtrip period> unsplit=<0|1> n=<N> f=<factor>
//!     B=<max len+additional> peakN=<peak live bytes in the first N rounds> peakAll=<..> allocsN=<byte-buffer allocations in the first N rounds> allocsAll=<..>
//!     capmax=<largest capacity() seen> maxlive=<max number of live byte buffers> alone=<every reserve found the handle alone 0|1>
//! plus, for the first rounds of the same pattern, an E1 history (replayed on the heap model by `modelrun heap`).
use crate::ledger::{self, tr, Ev};
use crate::rng::Rng;
use bytes::{Buf, BufMut, Bytes, BytesMut};
use std::collections::VecDeque;
use std::io::Write;

#[derive(Clone, Debug)]
pub struct Pat { mode: u8, m: usize, lo: usize, c0: usize, k: usize, freeze: bool, rt: usize, unsplit: bool, vary: bool, fill: u8,
                 /// every `bp`-th round the message is `bm` times as long (0 = no bursts): small frames with an occasional large one
                 bp: usize, bm: usize }
enum Part { M(BytesMut), B(Bytes) }
fn count_allocs() -> usize { ledger::take_events().iter().filter(|e| matches!(e, Ev::Alloc(..) | Ev::Realloc(..))).count() }

pub fn run_pattern(p: &Pat, n: usize, factor: usize, rng: &mut Rng) -> String {
    ledger::reset(false);
    let mut buf = tr(|| BytesMut::with_capacity(p.c0));
    let mut allocs = count_allocs();
    let mut q: VecDeque<Part> = VecDeque::new();
    let (mut peak_n, mut peak_all, mut allocs_n, mut capmax, mut maxlive, mut bmax, mut alone) = (0usize, 0usize, 0usize, 0usize, 0usize, 0usize, true);
    let total = n * factor;
    let payload = vec![0x5au8; p.m * p.bm.max(2) + 8];
    for round in 0..total {
        // long patterns (10^6 rounds of large messages) take longer than the watchdog's 10 s: report progress every 1024 rounds (a single hanging round is still caught)
        if round % 1024 == 1023 { crate::PROGRESS.fetch_add(1, std::sync::atomic::Ordering::Relaxed); }
        let m = if p.vary { 1 + rng.below(p.m as u64) as usize } else { p.m };
        let m = if p.bp > 0 && round % p.bp == p.bp - 1 { m * p.bm } else { m };
        bmax = bmax.max(buf.len() + m);
        // is the handle alone on its buffer at refill time?
        if !q.is_empty() { alone = false; }
        // refill: every way of appending m bytes goes through reserve (the policy of C18)
        tr(|| match p.fill {
            0 => { buf.reserve(m); buf.put_slice(&payload[..m]); }
            1 => { let l = buf.len(); buf.resize(l + m, 0); }
            2 => { let l = buf.len(); buf.resize(l + m, 0x5a); }
            3 => { buf.put_bytes(0x5a, m); }
            4 => { buf.extend_from_slice(&payload[..m]); }
            _ => { buf.extend(payload[..m].iter().copied()); }
        });
        capmax = capmax.max(buf.capacity());
        // consume
        let c = buf.len().saturating_sub(p.lo.min(buf.len()));
        let part: Option<BytesMut> = tr(|| match p.mode {
            0 => Some(buf.split_to(c)),
            1 => Some(buf.split()),
            2 => { buf.advance(c); None }
            _ => { let keep = buf.len() - c; let tail = buf.split_off(buf.len() - keep); let consumed = std::mem::replace(&mut buf, tail); Some(consumed) }   // consumed front leaves, tail becomes the buffer
        });
        if let Some(mut part) = part {
            if p.unsplit && part.len() >= 2 { tr(|| { let t = part.split_off(part.len() / 2); part.unsplit(t); }); }
            let part = if p.freeze { tr(|| { let b = part.freeze(); let c = b.clone(); drop(c); Part::B(b) }) } else { Part::M(part) };
            q.push_back(part);
        }
        while q.len() > p.k { let x = q.pop_front(); tr(|| drop(x)); }
        if p.rt > 0 && round % p.rt == p.rt - 1 && q.is_empty() {
            // round trip of the recycling handle itself through Bytes and back
            tr(|| { let b = std::mem::replace(&mut buf, BytesMut::new()).freeze(); buf = BytesMut::from(b); });
        }
        allocs += count_allocs();
        let live = ledger::live_bytes(); let (bufs, _) = ledger::live_summary();
        peak_all = peak_all.max(live); maxlive = maxlive.max(bufs.len());
        if round < n { peak_n = peak_n.max(live); allocs_n = allocs; }
        if round % 64 == 63 { ledger::compact(); }
    }
    tr(|| { drop(buf); while let Some(x) = q.pop_front() { drop(x); } });
    let (bufs, ctrl) = ledger::live_summary();
    let leak = !bufs.is_empty() || ctrl != 0;
    ledger::reset(false);
    format!("R mode={} fill={} m={} lo={} c0={} k={} freeze={} rt={} unsplit={} vary={} burst={}x{} n={} f={} B={} peakN={} peakAll={} allocsN={} allocsAll={} capmax={} maxlive={} alone={} leak={}",
            p.mode, p.fill, p.m, p.lo, p.c0, p.k, p.freeze as u8, p.rt, p.unsplit as u8, p.vary as u8, p.bp, p.bm, n, factor, bmax, peak_n, peak_all, allocs_n, allocs, capmax, maxlive, alone as u8, leak as u8)
}
pub fn gen_pat(rng: &mut Rng) -> Pat {
    let m = *rng.pick(&[1usize, 7, 16, 64, 100, 1000, 1024, 4096, 5000, 8192, 16384, 70000]);
    let lo = match rng.below(7) { 0 => 0, 1 => 1, 2 => m / 3, 3 => m / 2 + 1, 4 => 2 * m / 3, 5 => 4097usize.min(m.saturating_sub(1)), _ => m.saturating_sub(1) };
    let (bp, bm) = if m <= 5000 && rng.chance(1, 4) { (*rng.pick(&[5usize, 16, 50]), *rng.pick(&[3usize, 8, 50])) } else { (0, 0) };
    Pat { mode: rng.below(4) as u8, m, lo, c0: *rng.pick(&[0usize, 1, 8, 64, 1024, 4096, 8192, 65536]), k: *rng.pick(&[0usize, 0, 0, 1, 2, 5]),
          freeze: rng.chance(1, 3), rt: *rng.pick(&[0usize, 0, 3, 10]), unsplit: rng.chance(1, 4), vary: rng.chance(1, 3), fill: *rng.pick(&[0u8, 0, 1, 2, 3, 4, 5]), bp, bm }
}
pub fn recycle(out: &mut dyn Write, seed: u64, npat: usize, n: usize, factor: usize) {
    let mut rng = Rng::new(seed ^ 0x7ec1c1e);
    // the fixed periodic patterns first, then seeded random ones
    let mut pats = vec![];
    for mode in 0..4u8 { for (m, lo, c0) in [(64usize, 0usize, 0usize), (1024, 0, 1024), (1024, 100, 4096), (4096, 0, 65536), (1000, 999, 8)] { pats.push(Pat { mode, m, lo, c0, k: 0, freeze: false, rt: 0, unsplit: false, vary: false, fill: 0, bp: 0, bm: 0 }); } }
    for fill in 1..6u8 { for mode in [0u8, 2] { pats.push(Pat { mode, m: 1024, lo: 0, c0: 1024, k: 0, freeze: false, rt: 0, unsplit: false, vary: false, fill, bp: 0, bm: 0 }); pats.push(Pat { mode, m: 100, lo: 7, c0: 64, k: 0, freeze: false, rt: 0, unsplit: false, vary: false, fill, bp: 0, bm: 0 }); } }
    // large messages with a large unread tail (sizes beyond every small-buffer shortcut), and small frames with an occasional frame several times the initial capacity
    for mode in 0..4u8 { for (m, lo, c0) in [(8192usize, 5000usize, 16384usize), (16384, 4097, 1024), (70000, 35001, 65536)] { pats.push(Pat { mode, m, lo, c0, k: 0, freeze: false, rt: 0, unsplit: false, vary: false, fill: 0, bp: 0, bm: 0 }); } }
    for mode in 0..4u8 { for (m, c0, bp, bm) in [(100usize, 1024usize, 7usize, 50usize), (64, 4096, 16, 300), (1000, 1024, 5, 8)] { pats.push(Pat { mode, m, lo: 0, c0, k: 0, freeze: false, rt: 0, unsplit: false, vary: false, fill: 0, bp, bm }); } }
    for _ in 0..npat { pats.push(gen_pat(&mut rng)); }
    for p in &pats {
        crate::progress(&format!("{:?}", p));
        let line = run_pattern(p, n, factor, &mut rng.fork());
        writeln!(out, "{}", line).unwrap(); out.flush().unwrap();
    }
}
pub fn recycle_one(out: &mut dyn Write, n: usize, factor: usize) {
    let p = Pat { mode: 1, m: 16, lo: 0, c0: 8, k: 5, freeze: true, rt: 3, unsplit: false, vary: false, fill: 0, bp: 0, bm: 0 };
    let mut rng = Rng::new(1);
    let t = std::time::Instant::now();
    let line = run_pattern(&p, n, factor, &mut rng);
    writeln!(out, "{} secs={:?}", line, t.elapsed()).unwrap();
}

//! Ledger allocator (DESIGN appendix A): the global allocator of the harness.  Inside a TRACKED SECTION (around every crate
//! call and the construction of every input handed to the crate) align-1 requests are byte buffers: allocated with red
//! zones at an even or odd address, recorded with their layout, poisoned and quarantined when freed (so an address
//! identifies a block for the whole case, double frees are recognisable and stale reads return poison); other tracked
//! requests are control blocks (counted, quarantined).  Everything else passes through to the system allocator.
use std::alloc::{GlobalAlloc, Layout, System};
use std::cell::Cell;
use std::sync::atomic::{AtomicBool, AtomicUsize, Ordering};

pub struct Ledger;
const RZ: usize = 16;
const MAXE: usize = 1 << 14;
#[derive(Clone, Copy)]
pub struct Entry { pub addr: usize, pub size: usize, pub id: u32, pub state: u8 /*1 live 2 freed*/, pub kind: u8 /*0 buf 1 ctrl 2 static*/, base: usize, real: usize, align: usize }
#[derive(Clone, Copy)]
pub enum Ev { Alloc(u32, usize), Free(u32, usize, usize, usize /*layout size, align as passed*/), Realloc(u32, u32, usize), AllocCtrl, FreeCtrl, DoubleFree(u32), DoubleFreeCtrl, BadLayoutCtrl, OwnerAsRef(u32), OwnerDrop(u32) }
struct Tab { n: usize, e: [Entry; MAXE], nev: usize, ev: [Ev; 4096], next_id: u32 }
static mut TAB: Tab = Tab { n: 0, e: [Entry { addr: 0, size: 0, id: 0, state: 0, kind: 0, base: 0, real: 0, align: 0 }; MAXE], nev: 0, ev: [Ev::AllocCtrl; 4096], next_id: 1 };
static LOCK: AtomicBool = AtomicBool::new(false);
pub static ODD: AtomicBool = AtomicBool::new(false);
pub static OVERFLOW: AtomicUsize = AtomicUsize::new(0);
/// arena mode: byte buffers are carved back to back (2-aligned, no red zones) out of one static arena, so that consecutive allocations are ADJACENT in memory
pub static ARENA: AtomicBool = AtomicBool::new(false);
const ARENA_LEN: usize = 1 << 22;
static mut ARENA_MEM: [u8; ARENA_LEN] = [0; ARENA_LEN];
static ARENA_TOP: AtomicUsize = AtomicUsize::new(0);
thread_local! { static TRACK: Cell<bool> = const { Cell::new(false) }; }
thread_local! { static INSIDE: Cell<bool> = const { Cell::new(false) }; }
struct Guard;
/// the ledger's own bookkeeping may allocate (a Vec of ids): while a thread holds the lock its allocator calls pass straight through
fn inside() -> bool { INSIDE.try_with(|t| t.get()).unwrap_or(true) }
fn lock() -> Guard { while LOCK.compare_exchange_weak(false, true, Ordering::Acquire, Ordering::Relaxed).is_err() { std::hint::spin_loop(); } let _ = INSIDE.try_with(|t| t.set(true)); Guard }
impl Drop for Guard { fn drop(&mut self) { let _ = INSIDE.try_with(|t| t.set(false)); LOCK.store(false, Ordering::Release); } }
fn tracking() -> bool { TRACK.try_with(|t| t.get()).unwrap_or(false) && !std::thread::panicking() }
/// run `f` as a tracked section (restores the flag also when unwinding)
pub fn tr<R>(f: impl FnOnce() -> R) -> R {
    struct Restore(bool); impl Drop for Restore { fn drop(&mut self) { TRACK.with(|t| t.set(self.0)); } }
    let _r = Restore(TRACK.with(|t| t.replace(true)));
    f()
}
pub fn untracked<R>(f: impl FnOnce() -> R) -> R {
    struct Restore(bool); impl Drop for Restore { fn drop(&mut self) { TRACK.with(|t| t.set(self.0)); } }
    let _r = Restore(TRACK.with(|t| t.replace(false)));
    f()
}
#[allow(static_mut_refs)]
unsafe fn tab() -> &'static mut Tab { &mut *std::ptr::addr_of_mut!(TAB) }
unsafe fn push_ev(t: &mut Tab, e: Ev) { if t.nev < t.ev.len() { t.ev[t.nev] = e; t.nev += 1; } else { OVERFLOW.fetch_add(1, Ordering::Relaxed); } }
unsafe fn find(t: &Tab, addr: usize) -> Option<usize> { (0..t.n).rev().find(|&i| t.e[i].addr == addr && t.e[i].kind != 2) }

unsafe fn alloc_buf(t: &mut Tab, size: usize) -> (*mut u8, u32) {
    if ARENA.load(Ordering::Relaxed) {
        let top = ARENA_TOP.load(Ordering::Relaxed); let sz2 = (size + 1) & !1usize;
        if top + sz2 <= ARENA_LEN {
            ARENA_TOP.store(top + sz2, Ordering::Relaxed);
            let user = (std::ptr::addr_of_mut!(ARENA_MEM) as *mut u8).add(top);
            std::ptr::write_bytes(user, 0xCD, size);
            let id = t.next_id; t.next_id += 1;
            if t.n < MAXE { t.e[t.n] = Entry { addr: user as usize, size, id, state: 1, kind: 0, base: 0, real: 0, align: 1 }; t.n += 1; } else { OVERFLOW.fetch_add(1, Ordering::Relaxed); }
            return (user, id);
        }
    }
    let real = size + 2 * RZ + 2;
    let base = System.alloc(Layout::from_size_align_unchecked(real, 16));
    if base.is_null() { return (base, 0); }
    std::ptr::write_bytes(base, 0xFB, real);
    let user = base.add(RZ + if ODD.load(Ordering::Relaxed) { 1 } else { 0 });
    std::ptr::write_bytes(user, 0xCD, size);            // "uninitialised" pattern
    let id = t.next_id; t.next_id += 1;
    if t.n < MAXE { t.e[t.n] = Entry { addr: user as usize, size, id, state: 1, kind: 0, base: base as usize, real, align: 1 }; t.n += 1; } else { OVERFLOW.fetch_add(1, Ordering::Relaxed); }
    (user, id)
}
unsafe impl GlobalAlloc for Ledger {
    unsafe fn alloc(&self, l: Layout) -> *mut u8 {
        if inside() || !tracking() || l.size() == 0 { return System.alloc(l); }
        let _g = lock(); let t = tab();
        if l.align() == 1 {
            let (p, id) = alloc_buf(t, l.size()); if !p.is_null() { push_ev(t, Ev::Alloc(id, l.size())); } p
        } else {
            let p = System.alloc(l);
            if !p.is_null() && t.n < MAXE { t.e[t.n] = Entry { addr: p as usize, size: l.size(), id: 0, state: 1, kind: 1, base: p as usize, real: l.size(), align: l.align() }; t.n += 1; push_ev(t, Ev::AllocCtrl); }
            p
        }
    }
    unsafe fn alloc_zeroed(&self, l: Layout) -> *mut u8 { let p = self.alloc(l); if !p.is_null() { std::ptr::write_bytes(p, 0, l.size()); } p }
    unsafe fn dealloc(&self, p: *mut u8, l: Layout) {
        if inside() { return System.dealloc(p, l); }
        let _g = lock(); let t = tab();
        match find(t, p as usize) {
            None => { drop(_g); System.dealloc(p, l) }
            Some(i) => {
                let e = t.e[i];
                if e.state == 2 { push_ev(t, if e.kind == 0 { Ev::DoubleFree(e.id) } else { Ev::DoubleFreeCtrl }); return; }
                t.e[i].state = 2;
                if e.kind == 0 { push_ev(t, Ev::Free(e.id, e.size, l.size(), l.align())); std::ptr::write_bytes(p, 0xDD, e.size); }
                else { if l.size() != e.size || l.align() != e.align { push_ev(t, Ev::BadLayoutCtrl); } push_ev(t, Ev::FreeCtrl); std::ptr::write_bytes(p, 0xDD, e.size); }
                // quarantined: released by reset()
            }
        }
    }
    unsafe fn realloc(&self, p: *mut u8, l: Layout, new_size: usize) -> *mut u8 {
        if inside() { return System.realloc(p, l, new_size); }
        let g = lock(); let t = tab();
        match find(t, p as usize) {
            None => { drop(g); System.realloc(p, l, new_size) }
            Some(i) => {
                let e = t.e[i];
                if e.kind != 0 || e.state != 1 { drop(g); return std::ptr::null_mut(); }
                let (np, nid) = alloc_buf(t, new_size);
                if np.is_null() { return np; }
                std::ptr::copy_nonoverlapping(p, np, e.size.min(new_size));
                t.e[i].state = 2; std::ptr::write_bytes(p, 0xDD, e.size);
                if l.size() != e.size || l.align() != 1 { push_ev(t, Ev::Free(e.id, e.size, l.size(), l.align())); }
                push_ev(t, Ev::Realloc(e.id, nid, new_size));
                np
            }
        }
    }
}
/// register memory the crate is GIVEN (static data): gets the next block id, never freed
pub fn register_static(p: *const u8, size: usize) -> u32 { unsafe { let _g = lock(); let t = tab(); let id = t.next_id; t.next_id += 1; if t.n < MAXE { t.e[t.n] = Entry { addr: p as usize, size, id, state: 1, kind: 2, base: 0, real: 0, align: 1 }; t.n += 1; } id } }
pub fn take_events() -> Vec<Ev> { let v: Vec<Ev>; unsafe { let _g = lock(); let t = tab(); let n = t.nev; t.nev = 0; let mut tmp = [Ev::AllocCtrl; 4096]; tmp[..n].copy_from_slice(&t.ev[..n]); drop(_g); v = tmp[..n].to_vec(); } v }
/// (block id, offset, live) of an address inside (or one past the end of) a ledger block
pub fn locate(addr: usize) -> Option<(u32, usize, bool, u8)> { unsafe { let _g = lock(); let t = tab(); for i in (0..t.n).rev() { let e = &t.e[i]; if e.kind != 1 && addr >= e.addr && addr <= e.addr + e.size { return Some((e.id, addr - e.addr, e.state == 1, e.kind)); } } None } }
pub fn redzones_ok() -> bool { unsafe { let _g = lock(); let t = tab(); for i in 0..t.n { let e = &t.e[i]; if e.kind == 0 && e.base != 0 { let b = std::slice::from_raw_parts(e.base as *const u8, e.real); let u = e.addr - e.base; if b[..u].iter().any(|x| *x != 0xFB) || b[u + e.size..].iter().any(|x| *x != 0xFB) { return false; } } } true } }
pub fn live_summary() -> (Vec<u32>, usize) { unsafe { let _g = lock(); let t = tab(); let mut v = vec![]; let mut c = 0; for i in 0..t.n { let e = &t.e[i]; if e.state == 1 { if e.kind == 0 { v.push(e.id) } else if e.kind == 1 { c += 1 } } } (v, c) } }
pub fn live_bytes() -> usize { unsafe { let _g = lock(); let t = tab(); (0..t.n).filter(|&i| t.e[i].state == 1 && t.e[i].kind == 0).map(|i| t.e[i].size).sum() } }
/// end of a case: release quarantined and leaked memory, forget everything
pub fn reset(odd: bool) { unsafe { let _g = lock(); let t = tab(); for i in 0..t.n { let e = t.e[i]; if e.kind == 0 { if e.base != 0 { System.dealloc(e.base as *mut u8, Layout::from_size_align_unchecked(e.real, 16)); } } else if e.kind == 1 { System.dealloc(e.base as *mut u8, Layout::from_size_align_unchecked(e.size, e.align)); } } t.n = 0; t.nev = 0; t.next_id = 1; ODD.store(odd, Ordering::Relaxed); ARENA_TOP.store(0, Ordering::Relaxed); } }
/// compaction for very long runs (C18): drop the records of freed blocks
pub fn compact() { unsafe { let _g = lock(); let t = tab(); let mut j = 0; for i in 0..t.n { let e = t.e[i]; if e.state == 2 { if e.kind == 0 { if e.base != 0 { System.dealloc(e.base as *mut u8, Layout::from_size_align_unchecked(e.real, 16)); } } else if e.kind == 1 { System.dealloc(e.base as *mut u8, Layout::from_size_align_unchecked(e.size, e.align)); } } else { t.e[j] = e; j += 1; } } t.n = j; } }
pub fn stop_tracking() { let _ = TRACK.try_with(|t| t.set(false)); }
pub fn note_owner(asref: bool, id: u32) { unsafe { let _g = lock(); let t = tab(); push_ev(t, if asref { Ev::OwnerAsRef(id) } else { Ev::OwnerDrop(id) }); } }
pub fn block_size(addr: usize) -> Option<usize> { unsafe { let _g = lock(); let t = tab(); for i in (0..t.n).rev() { let e = &t.e[i]; if e.kind == 0 && addr >= e.addr && addr <= e.addr + e.size { return Some(e.size); } } None } }

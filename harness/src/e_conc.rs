//! Engine E6 (real threads): small random programs on 2-4 threads over every shared representation, started together on a
//! spin barrier, under the ledger allocator.  Checked on the spot (sampled schedules — supporting evidence for C05, never the proof):
//! every read returns the original bytes at the original address, at most one party obtains the storage without copying,
//! no wrong/double free, and after all handles are gone the ledger is empty.
//! Line:  X rep=<..> threads=<n> prog=<..> bad_reads=<k> zero_copy_owners=<k> alloc_violations=<k> leak=<0|1> detail=<..>
use crate::ledger::{self, tr, Ev};
use crate::rng::Rng;
use bytes::{Buf, BufMut, Bytes, BytesMut};
use std::io::Write;
use std::sync::atomic::{AtomicUsize, Ordering};
use std::sync::Arc;

fn pattern(n: usize, salt: u8) -> Vec<u8> { (0..n).map(|i| (i as u8).wrapping_mul(7).wrapping_add(salt)).collect() }
struct Own(Vec<u8>);
impl AsRef<[u8]> for Own { fn as_ref(&self) -> &[u8] { &self.0 } }

struct Shared { bad_reads: AtomicUsize, zero_copy: AtomicUsize, start: AtomicUsize, nthreads: usize }
impl Shared {
    fn wait(&self) { self.start.fetch_add(1, Ordering::SeqCst); let mut spins = 0u32; while self.start.load(Ordering::SeqCst) < self.nthreads { spins += 1; if spins > 2000 { std::thread::yield_now(); } else { std::hint::spin_loop(); } } }
}
fn check(sh: &Shared, got: &[u8], exp: &[u8], ptr: usize, exp_ptr: Option<usize>) {
    if got != exp { sh.bad_reads.fetch_add(1, Ordering::Relaxed); }
    if let Some(p) = exp_ptr { if !got.is_empty() && ptr != p { sh.bad_reads.fetch_add(1, Ordering::Relaxed); } }
}
/// program of a thread that owns a Bytes handle `b` whose contents must be `exp` at address `base`
fn bytes_prog(sh: &Shared, mut b: Bytes, exp: &[u8], base: usize, blk: Option<u32>, ops: &[u8]) {
    let mut extra: Vec<Bytes> = vec![];
    for op in ops {
        match op % 8 {
            0 => { let c = b.clone(); check(sh, &c, exp, c.as_ptr() as usize, Some(base)); extra.push(c); }
            1 => { check(sh, &b, exp, b.as_ptr() as usize, Some(base)); }
            2 => { if exp.len() >= 2 { let s = b.slice(1..exp.len()); check(sh, &s, &exp[1..], s.as_ptr() as usize, Some(base + 1)); extra.push(s); } }
            3 => { extra.pop(); }
            4 => { // try_into_mut: Ok means exclusive ownership without copying
                match b.try_into_mut() {
                    Ok(m) => { check(sh, &m, exp, m.as_ptr() as usize, Some(base)); if on_block(m.as_ptr() as usize, blk) { sh.zero_copy.fetch_add(1, Ordering::Relaxed); } b = m.freeze(); return finish(sh, b, extra, exp, base); }
                    Err(x) => { b = x; }
                } }
            5 => { // into Vec: zero-copy iff the result lives in the original block
                let v: Vec<u8> = Vec::from(b); check(sh, &v, exp, 0, None);
                if !v.is_empty() && on_block(v.as_ptr() as usize, blk) { sh.zero_copy.fetch_add(1, Ordering::Relaxed); }
                drop(v); drop(extra); return; }
            6 => { let m = BytesMut::from(b); check(sh, &m, exp, 0, None);
                   if !m.is_empty() && on_block(m.as_ptr() as usize, blk) { sh.zero_copy.fetch_add(1, Ordering::Relaxed); }
                   drop(m); drop(extra); return; }
            _ => { std::thread::yield_now(); }
        }
    }
    finish(sh, b, extra, exp, base)
}
fn finish(sh: &Shared, b: Bytes, extra: Vec<Bytes>, exp: &[u8], base: usize) { check(sh, &b, exp, b.as_ptr() as usize, Some(base)); drop(extra); drop(b); }
fn on_block(addr: usize, blk: Option<u32>) -> bool { match (ledger::locate(addr), blk) { (Some((id, _, _, _)), Some(b)) => id == b, _ => false } }

pub fn conc(out: &mut dyn Write, seed: u64, n: usize) {
    let mut rng = Rng::new(seed ^ 0xc0c0);
    for case in 0..n {
        ledger::reset(rng.chance(1, 2));
        let nthreads = rng.range(2, 4) as usize;
        let len = rng.range(4, 40) as usize;
        let off = if rng.chance(1, 2) { rng.below(4) as usize } else { 0 };
        let data = pattern(len + off, rng.next() as u8);
        let rep = rng.below(6);
        let progs: Vec<Vec<u8>> = (0..nthreads).map(|_| { let k = rng.range(1, 4) as usize; (0..k).map(|_| rng.next() as u8).collect() }).collect();
        let sh = Shared { bad_reads: AtomicUsize::new(0), zero_copy: AtomicUsize::new(0), start: AtomicUsize::new(0), nthreads };
        let exp: Vec<u8> = data[off..].to_vec();
        let mut detail = String::new();
        let repname;
        match rep {
            0 | 1 => { // unshared Vec-backed Bytes (promotable), optionally advanced: first clones race through one &Bytes
                repname = if rep == 0 { "promotable_via_ref" } else { "promotable_via_ref_boxed" };
                let mut b = tr(|| { let mut v = Vec::with_capacity(data.len()); v.extend_from_slice(&data); Bytes::from(v) });
                tr(|| b.advance(off));
                let base = b.as_ptr() as usize; let blk = ledger::locate(base).map(|x| x.0);
                let arc = Arc::new(b);
                std::thread::scope(|s| { for p in &progs { let a = arc.clone(); let sh = &sh; let exp = &exp; s.spawn(move || tr(|| { sh.wait(); let c: Bytes = (*a).clone(); drop(a); bytes_prog(sh, c, exp, base, blk, p); })); } });
                tr(|| drop(arc));
            }
            2 => { // already shared Bytes (Vec with spare capacity): clones moved into the threads
                repname = "shared";
                let mut b = tr(|| { let mut v = Vec::with_capacity(data.len() + 5); v.extend_from_slice(&data); Bytes::from(v) });
                tr(|| b.advance(off));
                let base = b.as_ptr() as usize; let blk = ledger::locate(base).map(|x| x.0);
                let hs: Vec<Bytes> = tr(|| (0..nthreads).map(|_| b.clone()).collect()); tr(|| drop(b));
                std::thread::scope(|s| { for (h, p) in hs.into_iter().zip(&progs) { let sh = &sh; let exp = &exp; s.spawn(move || tr(|| { sh.wait(); bytes_prog(sh, h, exp, base, blk, p); })); } });
            }
            3 => { // frozen BytesMut (SharedV)
                repname = "frozen_bytesmut";
                let b = tr(|| { let mut m = BytesMut::with_capacity(data.len() + 8); m.put_slice(&data); let _pre = m.split_to(off); m.freeze() });
                let base = b.as_ptr() as usize; let blk = ledger::locate(base).map(|x| x.0);
                let hs: Vec<Bytes> = tr(|| (0..nthreads).map(|_| b.clone()).collect()); tr(|| drop(b));
                std::thread::scope(|s| { for (h, p) in hs.into_iter().zip(&progs) { let sh = &sh; let exp = &exp; s.spawn(move || tr(|| { sh.wait(); bytes_prog(sh, h, exp, base, blk, p); })); } });
            }
            4 => { // owner-backed
                repname = "owner";
                let b = tr(|| { let mut v = Vec::with_capacity(data.len()); v.extend_from_slice(&data); let mut b = Bytes::from_owner(Own(v)); b.advance(off); b });
                let base = b.as_ptr() as usize;
                let hs: Vec<Bytes> = tr(|| (0..nthreads).map(|_| b.clone()).collect()); tr(|| drop(b));
                std::thread::scope(|s| { for (h, p) in hs.into_iter().zip(&progs) { let sh = &sh; let exp = &exp; s.spawn(move || tr(|| { sh.wait(); bytes_prog(sh, h, exp, base, None, p); })); } });
            }
            _ => { // BytesMut split into pieces: each thread writes its own region, reserves / reclaims / converts / drops
                repname = "bytesmut_pieces";
                let mut m = tr(|| { let mut m = BytesMut::with_capacity(nthreads * 16); m.put_slice(&pattern(nthreads * 16, 3)); m });
                let blk = ledger::locate(m.as_ptr() as usize).map(|x| x.0);
                let pieces: Vec<BytesMut> = tr(|| (0..nthreads).map(|i| if i + 1 == nthreads { m.split() } else { m.split_to(16) }).collect()); tr(|| drop(m));
                std::thread::scope(|s| { for (i, (mut piece, p)) in pieces.into_iter().zip(&progs).enumerate() { let sh = &sh; s.spawn(move || tr(|| {
                    sh.wait();
                    let tag = 0x40 + i as u8;
                    for op in p { match op % 6 {
                        0 => { for b in piece.iter_mut() { *b = tag; } }
                        1 => { if piece.iter().any(|b| *b != tag) && piece.iter().any(|b| *b == tag) { sh.bad_reads.fetch_add(1, Ordering::Relaxed); } }
                        2 => { let before = piece.to_vec(); piece.reserve(24); if &piece[..] != &before[..] { sh.bad_reads.fetch_add(1, Ordering::Relaxed); } for b in piece.iter_mut() { *b = tag; } }
                        3 => { let before = piece.to_vec(); let _ = piece.try_reclaim(40); if &piece[..] != &before[..] { sh.bad_reads.fetch_add(1, Ordering::Relaxed); } }
                        4 => { let l = piece.len(); let before = piece.to_vec(); let t = piece.split_off(l / 2); piece.unsplit(t); if &piece[..] != &before[..] { sh.bad_reads.fetch_add(1, Ordering::Relaxed); } }
                        _ => { let before = piece.to_vec(); let v: Vec<u8> = Vec::from(std::mem::replace(&mut piece, BytesMut::new())); if v != before { sh.bad_reads.fetch_add(1, Ordering::Relaxed); }
                               if !v.is_empty() && on_block(v.as_ptr() as usize, blk) { sh.zero_copy.fetch_add(1, Ordering::Relaxed); } piece = BytesMut::from(&v[..]); }
                    } }
                    drop(piece);
                })); } });
            }
        }
        let evs = ledger::take_events();
        let mut viol = 0;
        for e in &evs { match e { Ev::Free(_, sz, lsz, lal) => if lsz != sz || *lal != 1 { viol += 1; detail.push_str("wrong-layout;") }, Ev::DoubleFree(_) | Ev::DoubleFreeCtrl => { viol += 1; detail.push_str("double-free;") } Ev::BadLayoutCtrl => { viol += 1; detail.push_str("ctrl-layout;") } _ => {} } }
        if !ledger::redzones_ok() { viol += 1; detail.push_str("red-zone;") }
        let (bufs, ctrl) = ledger::live_summary();
        let leak = !bufs.is_empty() || ctrl != 0;
        let progs_s: Vec<String> = progs.iter().map(|p| p.iter().map(|x| (x % 8).to_string()).collect::<Vec<_>>().join("")).collect();
        writeln!(out, "X case={} rep={} threads={} off={} prog={} bad_reads={} zero_copy_owners={} alloc_violations={} leak={} detail={}", case, repname, nthreads, off, progs_s.join("/"),
                 sh.bad_reads.load(Ordering::Relaxed), sh.zero_copy.load(Ordering::Relaxed), viol, leak as u8, if detail.is_empty() { "-" } else { &detail }).unwrap();
        crate::progress(&format!("conc case {}", case));
    }
    ledger::reset(false);
}

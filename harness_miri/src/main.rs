//! Engine E6m: tiny threaded scenarios over every shared representation, meant to be interpreted by Miri
//! (data-race detector + weak-memory emulation + use-after-free/leak detection) under many scheduler seeds.
//! Usage: bvm <scenario 0..N-1 | all>.  Every scenario also asserts contents, so it is a plain stress test natively.
use bytes::{Buf, BufMut, Bytes, BytesMut};
use std::sync::Arc;
use std::thread;

fn pat(n: usize) -> Vec<u8> { (0..n).map(|i| (i * 7 + 3) as u8).collect() }
struct Own(Vec<u8>);
impl AsRef<[u8]> for Own { fn as_ref(&self) -> &[u8] { &self.0 } }
impl Drop for Own { fn drop(&mut self) { for b in self.0.iter_mut() { *b = 0xdd; } } }   // a drop that WRITES the memory the views read

fn reader_then_drop(b: Bytes, exp: Vec<u8>) { assert_eq!(&b[..], &exp[..]); let c = b.clone(); assert_eq!(&c[..], &exp[..]); drop(b); drop(c); }
/// waits until unique, takes the storage over without copying and overwrites it
fn taker(mut b: Bytes, exp: Vec<u8>) {
    for _ in 0..200 {
        match b.try_into_mut() {
            Ok(mut m) => { assert_eq!(&m[..], &exp[..]); for x in m.iter_mut() { *x = 0xee; } m.put_slice(b"more"); return; }
            Err(x) => { b = x; thread::yield_now(); }
        }
    }
    assert_eq!(&b[..], &exp[..]);
}
fn into_vec_writer(b: Bytes, exp: Vec<u8>) { let mut v: Vec<u8> = b.into(); assert_eq!(v, exp); for x in v.iter_mut() { *x = 0xaa; } v.push(1); }
fn into_mut_writer(b: Bytes, exp: Vec<u8>) { let mut m: BytesMut = b.into(); assert_eq!(&m[..], &exp[..]); for x in m.iter_mut() { *x = 0xab; } m.put_u8(1); }

fn sc_promote(off: usize, even_len: bool) {
    // unshared Vec-backed Bytes (cap == len: promotable), cloned for the first time by two threads through &Bytes
    let data = pat(if even_len { 16 } else { 17 });
    let mut b = Bytes::from(data.clone().into_boxed_slice()); b.advance(off);
    let exp = data[off..].to_vec();
    let a = Arc::new(b);
    let hs: Vec<_> = (0..2).map(|_| { let a = a.clone(); let exp = exp.clone(); thread::spawn(move || { let c: Bytes = (*a).clone(); drop(a); reader_then_drop(c, exp); }) }).collect();
    let c = (*a).clone(); assert_eq!(&c[..], &exp[..]); drop(a); into_vec_writer(c, exp);
    for h in hs { h.join().unwrap(); }
}
fn sc_shared(kind: u8, last: u8) {
    let data = pat(24);
    let (b, exp): (Bytes, Vec<u8>) = match kind {
        0 => { let mut v = Vec::with_capacity(40); v.extend_from_slice(&data); let b = Bytes::from(v); let c = b.clone(); drop(c); (b, data.clone()) }   // promoted Shared
        1 => { let mut m = BytesMut::with_capacity(40); m.put_slice(&data); let _p = m.split_to(4); (m.freeze(), data[4..].to_vec()) }          // SharedV (KIND_ARC)
        2 => { let mut m = BytesMut::with_capacity(40); m.put_slice(&data); (m.freeze(), data.clone()) }                                        // Vec-kind freeze -> promotable/shared
        _ => { (Bytes::from_owner(Own(data.clone())), data.clone()) }
    };
    let c1 = b.clone(); let c2 = b.clone();
    let e1 = exp.clone(); let e2 = exp.clone();
    let t1 = thread::spawn(move || reader_then_drop(c1, e1));
    let t2 = thread::spawn(move || { let s = c2.slice(2..); assert_eq!(&s[..], &e2[2..]); drop(c2); drop(s); });
    match last { 0 => taker(b, exp), 1 => into_vec_writer(b, exp), 2 => into_mut_writer(b, exp), _ => reader_then_drop(b, exp) }
    t1.join().unwrap(); t2.join().unwrap();
}
fn sc_pieces(mode: u8) {
    // BytesMut split in pieces living on different threads: each writes its own region; the survivor reclaims the whole buffer
    let mut m = BytesMut::with_capacity(64); m.put_slice(&pat(48));
    let mut a = m.split_to(16); let mut b = m.split_to(16);
    let t1 = thread::spawn(move || { for x in a.iter_mut() { *x = 1; } assert!(a.iter().all(|x| *x == 1)); drop(a); });
    let t2 = thread::spawn(move || { for x in b.iter_mut() { *x = 2; } let f = b.freeze(); let g = f.clone(); assert!(g.iter().all(|x| *x == 2)); drop(f); drop(g); });
    for x in m.iter_mut() { *x = 3; }
    match mode {
        0 => { for _ in 0..200 { if m.try_reclaim(56) { break; } thread::yield_now(); } }
        1 => { m.reserve(60); }
        _ => { m.clear(); for _ in 0..200 { if m.try_reclaim(64) { break; } thread::yield_now(); } }
    }
    let l = m.len(); m.put_bytes(9, 40.min(m.capacity() - l)); 
    t1.join().unwrap(); t2.join().unwrap();
    m.reserve(64); m.put_bytes(7, 64);
}
const N: usize = 4 + 16 + 3;
fn run(i: usize) {
    match i {
        0 => sc_promote(0, true), 1 => sc_promote(0, false), 2 => sc_promote(3, true), 3 => sc_promote(3, false),
        4..=19 => { let k = i - 4; sc_shared((k / 4) as u8, (k % 4) as u8) }
        _ => sc_pieces((i - 20) as u8),
    }
}
fn main() {
    let a: Vec<String> = std::env::args().collect();
    if a.len() < 2 || a[1] == "all" { for i in 0..N { run(i); } println!("ran {} scenarios", N); }
    else if a[1] == "count" { println!("{}", N); }
    else { let i: usize = a[1].parse().unwrap(); run(i); println!("scenario {} ok", i); }
}

#!/usr/bin/env python3
"""T5: every comparison-family impl header in /repo/src/bytes.rs and bytes_mut.rs -> Gen/CmpImpls.v `source_impls`,
together with the table of impls the harness exercises (`bvh cmp-table`) -> `harness_table`."""
import re, os, subprocess, sys
def strip(src): return re.sub(r'//[^\n]*', '', src)
def headers(repo):
    out = []
    for f in ("src/bytes.rs", "src/bytes_mut.rs"):
        src = strip(open(os.path.join(repo, f)).read())
        for m in re.finditer(r'\bimpl\s*(<[^>]*>)?\s*((?:hash::|cmp::|core::\w+::)?(?:PartialEq|PartialOrd|Ord|Eq|Hash|Borrow|BorrowMut))\s*(?:<([^{]*?)>)?\s+for\s+([^\s{]+(?:\s*<[^>]*>)?)\s*(?:where[^{]*)?\{', src):
            tr = m.group(2).split("::")[-1]; rhs = (m.group(3) or "").strip(); slf = m.group(4).strip()
            out.append((tr, slf, rhs))
    return out
def generate(repo, bvh, out_path):
    st = {"translator": "T5", "ok": True, "problems": []}
    try: src = headers(repo)
    except Exception as e: st["ok"] = False; st["problems"].append(repr(e)); src = []
    p = subprocess.run([bvh, "cmp-table"], capture_output=True, text=True, timeout=60)
    tbl = [tuple(l.split("|")) for l in p.stdout.splitlines() if l.count("|") == 2]
    if p.returncode != 0 or not tbl: st["ok"] = False; st["problems"].append("bvh cmp-table failed")
    if len(src) < 10: st["ok"] = False; st["problems"].append("only %d impl headers found in the source" % len(src))
    def lst(name, rows): return "Definition %s : list impl := [\n  %s\n]." % (name, ";\n  ".join('("%s", "%s", "%s")' % r for r in rows))
    text = "\n".join(["(* REGENERATED ON EVERY RUN by translators/t5_impls.py *)", "From Coq Require Import String List.", "From BV Require Import Cmp.",
                      "Import ListNotations.", "Local Open Scope string_scope.", lst("source_impls", src), lst("harness_table", tbl)]) + "\n"
    old = open(out_path).read() if os.path.exists(out_path) else None
    if old != text:
        os.makedirs(os.path.dirname(out_path), exist_ok=True); open(out_path, "w").write(text)
    st["source_impls"] = len(src); st["harness_table"] = len(tbl)
    st["uncovered"] = [list(i) for i in src if i not in tbl]
    return st
if __name__ == "__main__":
    import json; print(json.dumps(generate("/repo", sys.argv[1], sys.argv[2]), indent=1))

#!/usr/bin/env python3
"""T4: tabulate the crate's Debug / {:x} / {:X} output on all 256 one-byte strings by EXECUTING
the current crate (harness subcommand `escapes`) and write coq/theories/Gen/Escapes.v.
Returns a status dict; never raises on odd output (reports it instead)."""
import subprocess, sys, os

def render(lst):
    return "[" + "; ".join("[" + "; ".join(str(c) for c in e) + "]" for e in lst) + "]"

def generate(bvh, out_path):
    p = subprocess.run([bvh, "escapes"], capture_output=True, text=True, timeout=60)
    status = {"translator": "T4", "ok": True, "problems": []}
    if p.returncode != 0:
        status["ok"] = False; status["problems"].append("harness exited %d" % p.returncode)
    tabs = {"bytes": {}, "bytesmut": {}}
    for line in p.stdout.splitlines():
        f = line.split()
        if not f: continue
        if f[0] == "BADFRAME":
            status["ok"] = False
            status["problems"].append({"kind": "frame", "type": f[1], "byte": int(f[2]), "debug_codes": f[3]})
            continue
        if f[0] != "E": continue
        ty, b = f[1], int(f[2])
        dec = lambda s: [] if s == "-" else [int(x) for x in s.split(",")]
        tabs[ty][b] = (dec(f[3]), dec(f[4]), dec(f[5]))
    for ty in tabs:
        for b in range(256):
            if b not in tabs[ty]:
                tabs[ty][b] = ([], [], [])
                if not any(isinstance(x, dict) and x.get("byte") == b for x in status["problems"]):
                    status["problems"].append({"kind": "missing", "type": ty, "byte": b})
    lines = ["(* REGENERATED ON EVERY RUN by translators/t4_escapes.py from the output of the current crate. *)",
             "From Coq Require Import List NArith.", "Import ListNotations.", "Local Open Scope N_scope."]
    for ty in ("bytes", "bytesmut"):
        for j, nm in enumerate(("debug", "lower", "upper")):
            lines.append("Definition %s_%s_codes : list (list N) := %s." % (ty, nm, render([tabs[ty][b][j] for b in range(256)])))
    text = "\n".join(lines) + "\n"
    old = open(out_path).read() if os.path.exists(out_path) else None
    if old != text:
        os.makedirs(os.path.dirname(out_path), exist_ok=True)
        open(out_path, "w").write(text)
    status["tables"] = {ty: {b: tabs[ty][b] for b in (0, 34, 39, 92, 255)} for ty in tabs}
    return status

if __name__ == "__main__":
    print(generate(sys.argv[1], sys.argv[2]))

#!/usr/bin/env python3
"""T7: read the representation constants of src/bytes_mut.rs and src/bytes.rs (KIND_*, ORIGINAL_CAPACITY_*, VEC_POS_OFFSET, NOT_VEC_POS_MASK,
MIN/MAX_ORIGINAL_CAPACITY_WIDTH, PTR_WIDTH for 64-bit targets) off the CURRENT source and write coq/theories/Gen/Consts.v.  The lemmas that
the representation model M2 (Heap.v) uses exactly these values are in Properties/C02.v, C04.v, C18.v (kernel-checked on every run).
Returns a status dict; never raises on odd input (reports it instead)."""
import os, re

WANT_MUT = ["KIND_ARC", "KIND_VEC", "KIND_MASK", "MAX_ORIGINAL_CAPACITY_WIDTH", "MIN_ORIGINAL_CAPACITY_WIDTH", "ORIGINAL_CAPACITY_MASK",
            "ORIGINAL_CAPACITY_OFFSET", "VEC_POS_OFFSET", "NOT_VEC_POS_MASK"]
WANT_B = ["KIND_ARC", "KIND_VEC", "KIND_MASK"]

def lit(s):
    s = s.strip().replace("_", "")
    if s.startswith("0b"): return int(s[2:], 2)
    if s.startswith("0x"): return int(s[2:], 16)
    if re.fullmatch(r"\d+", s): return int(s)
    return None

def consts(text):
    out = {}
    for m in re.finditer(r"(?m)^(#\[cfg\(target_pointer_width = \"(\d+)\"\)\]\s*\n)?\s*const\s+([A-Z_][A-Z0-9_]*)\s*:\s*usize\s*=\s*([^;]+);", text):
        width, name, val = m.group(2), m.group(3), m.group(4)
        key = name if not width else "%s@%s" % (name, width)
        out[key] = val.strip()
    return out

def generate(repo, out_path):
    status = {"translator": "T7", "ok": True, "problems": [], "values": {}}
    vals = {}
    for fn, want, pre in (("src/bytes_mut.rs", WANT_MUT, "mut_"), ("src/bytes.rs", WANT_B, "bytes_")):
        try: text = open(os.path.join(repo, fn)).read()
        except OSError as e:
            status["ok"] = False; status["problems"].append("cannot read %s: %s" % (fn, e)); continue
        cs = consts(text)
        for w in want:
            v = lit(cs[w]) if w in cs else None
            if v is None:
                status["ok"] = False; status["problems"].append("%s: constant %s not found or not a literal (%r)" % (fn, w, cs.get(w)))
                v = 0
            vals[pre + w] = v
        if pre == "mut_":
            mv = cs.get("MAX_VEC_POS", "")
            if re.sub(r"\s+", "", mv) != "usize::MAX>>VEC_POS_OFFSET":
                status["ok"] = False; status["problems"].append("%s: MAX_VEC_POS is no longer `usize::MAX >> VEC_POS_OFFSET` (%r)" % (fn, mv))
            pw = lit(cs.get("PTR_WIDTH@64", ""))
            if pw is None:
                status["ok"] = False; status["problems"].append("%s: PTR_WIDTH for 64-bit targets not found" % fn); pw = 0
            vals["mut_PTR_WIDTH_64"] = pw
    status["values"] = vals
    lines = ["(* REGENERATED ON EVERY RUN by translators/t7_consts.py from src/bytes_mut.rs and src/bytes.rs of the current tree. *)",
             "From Coq Require Import NArith.", "Local Open Scope N_scope."]
    for k in sorted(vals): lines.append("Definition src_%s : N := %d." % (k, vals[k]))
    text = "\n".join(lines) + "\n"
    old = open(out_path).read() if os.path.exists(out_path) else None
    if old != text:
        os.makedirs(os.path.dirname(out_path), exist_ok=True)
        open(out_path, "w").write(text)
    return status

if __name__ == "__main__":
    import sys, json
    print(json.dumps(generate(sys.argv[1] if len(sys.argv) > 1 else "/repo", sys.argv[2] if len(sys.argv) > 2 else "/tmp/Consts.v"), indent=1))

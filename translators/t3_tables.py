#!/usr/bin/env python3
"""T3 (+ the part of T1 that M4/M5 need): reads the bodies of get_*/try_get_*/put_* in the Buf and BufMut traits and
the two deref_forward_* macros of /repo's CURRENT source and writes coq/theories/Gen/GetPut.v:
  getters : list (string * gdesc)   each method with what its body does, call chains resolved
  putters : list (string * gdesc)
  buf_forward / bufmut_forward : list (string * string)   method -> method the macro calls on **self
  take_len, vec_reserve, bytesmut_reserve : N  (constants)
Bodies that match no known shape are listed in status['unparsed'] (tie degraded for them)."""
import re, os, sys

def strip(src): return re.sub(r'//[^\n]*', '', src)
def body_at(src, i):
    depth = 0; j = i
    while True:
        c = src[j]
        if c == '{': depth += 1
        elif c == '}':
            depth -= 1
            if depth == 0: return src[i:j+1]
        j += 1
def trait_block(src, header):
    m = re.search(header, src); return body_at(src, src.index('{', m.end() - 1))
def methods(block, pat):
    out = {}
    for m in re.finditer(r'fn\s+(' + pat + r')\s*(?:<[^>]*>)?\s*\(([^)]*)\)[^{;]*\{', block):
        b = body_at(block, m.end() - 1); b1 = ' '.join(b.split())
        out[m.group(1)] = (b1[1:-1].strip(), ' '.join(m.group(2).split()))
    return out
SIZES = {'u8': 1, 'i8': 1, 'u16': 2, 'i16': 2, 'u32': 4, 'i32': 4, 'u64': 8, 'i64': 8, 'u128': 16, 'i128': 16, 'f32': 4, 'f64': 8}

def classify_get(body):
    m = re.fullmatch(r'buf_(try_)?get_impl!\(\s*(be|le)\s*=>\s*self\s*,\s*(\w+)\s*,\s*nbytes\s*\);?', body)
    if m and m.group(3) == 'u64': return ('var', m.group(2), bool(m.group(1)))
    m = re.fullmatch(r'buf_(try_)?get_impl!\(\s*self\s*,\s*(\w+)::from_(be|le|ne)_bytes\s*\);?', body)
    if m and m.group(2) in SIZES: return ('fixed', m.group(3), m.group(2), bool(m.group(1)))
    m = re.fullmatch(r'sign_extend\(self\.(\w+)\(nbytes\), nbytes\)', body)
    if m: return ('sign_extend_of', m.group(1))
    m = re.fullmatch(r'self\.(\w+)\(nbytes\)\.map\(\|(\w+)\| sign_extend\(\2, nbytes\)\)', body)
    if m: return ('sign_extend_of', m.group(1))
    m = re.fullmatch(r'(?:Ok\()?(f32|f64)::from_bits\(self\.(\w+)\(\)\??\)\)?', body)
    if m: return ('from_bits_of', m.group(2), m.group(1))
    m = re.fullmatch(r'if cfg!\(target_endian = "big"\) \{ self\.(\w+)\(nbytes\) \} else \{ self\.(\w+)\(nbytes\) \}', body)
    if m: return ('ne_dispatch', m.group(1), m.group(2))
    m = re.fullmatch(r'if self\.remaining\(\) < 1 \{ (?:return Err\(TryGetError \{ requested: 1, available: self\.remaining\(\), \}\);|panic_advance\(&TryGetError \{ requested: 1, available: 0, \}\);?) \} let ret = self\.chunk\(\)\[0\]( as i8)?; self\.advance\(1\); (Ok\(ret\)|ret)', body)
    if m: return ('k8', bool(m.group(1)), m.group(2).startswith('Ok'))
    return None

def resolve_get(name, cls, seen=()):
    """-> (try, kind, size, endian, signed) or None"""
    c = cls.get(name)
    if c is None or name in seen: return None
    if c[0] == 'k8': return (c[2], 'GK8', 1, 'BE', c[1])
    if c[0] == 'fixed':
        ty = c[2]; return (c[3], 'GKFixed', SIZES[ty], 'BE' if c[1] == 'be' else 'LE', ty.startswith('i'))
    if c[0] == 'var': return (c[2], 'GKVar', 8, 'BE' if c[1] == 'be' else 'LE', False)
    if c[0] == 'sign_extend_of':
        r = resolve_get(c[1], cls, seen + (name,))
        return None if r is None or r[1] != 'GKVar' else (r[0], r[1], r[2], r[3], True)
    if c[0] == 'from_bits_of':
        r = resolve_get(c[1], cls, seen + (name,))
        return None if r is None or r[4] or r[2] != SIZES[c[2]] else r
    if c[0] == 'ne_dispatch': return resolve_get(c[2], cls, seen + (name,))     # little-endian target
    return None

def classify_put(body, args):
    m = re.fullmatch(r'self\.put_slice\(&n\.to_(be|le|ne)_bytes\(\)\);?', body)
    ty = (re.search(r'n: (\w+)', args) or [None, None])[1]
    if m and ty in SIZES: return ('fixed', m.group(1), ty)
    m = re.fullmatch(r'self\.(put_\w+)\(n\.to_bits\(\)\);?', body)
    if m: return ('to_bits_then', m.group(1), ty)
    m = re.fullmatch(r'let start = match mem::size_of_val\(&n\)\.checked_sub\(nbytes\) \{ Some\(start\) => start, None => panic_does_not_fit\(nbytes, mem::size_of_val\(&n\)\), \}; self\.put_slice\(&n\.to_be_bytes\(\)\[start\.\.\]\);?', body)
    if m and ty in ('u64', 'i64'): return ('var', 'be', ty)
    m = re.fullmatch(r'let slice = n\.to_le_bytes\(\); let slice = match slice\.get\(\.\.nbytes\) \{ Some\(slice\) => slice, None => panic_does_not_fit\(nbytes, slice\.len\(\)\), \}; self\.put_slice\(slice\);?', body)
    if m and ty in ('u64', 'i64'): return ('var', 'le', ty)
    m = re.fullmatch(r'if cfg!\(target_endian = "big"\) \{ self\.(\w+)\(n, nbytes\) \} else \{ self\.(\w+)\(n, nbytes\) \}', body)
    if m: return ('ne_dispatch', m.group(1), m.group(2))
    m = re.fullmatch(r'let src = \[n( as u8)?\]; self\.put_slice\(&src\);?', body)
    if m and ty in ('u8', 'i8'): return ('k8', ty)
    return None

def resolve_put(name, cls, seen=()):
    c = cls.get(name)
    if c is None or name in seen: return None
    if c[0] == 'k8': return (False, 'GK8', 1, 'BE', c[1] == 'i8')
    if c[0] == 'fixed': return (False, 'GKFixed', SIZES[c[2]], 'BE' if c[1] == 'be' else 'LE', c[2].startswith('i'))
    if c[0] == 'var': return (False, 'GKVar', 8, 'BE' if c[1] == 'be' else 'LE', c[2] == 'i64')
    if c[0] == 'to_bits_then':
        r = resolve_put(c[1], cls, seen + (name,))
        return None if r is None or r[4] or r[2] != SIZES.get(c[2], -1) else r
    if c[0] == 'ne_dispatch': return resolve_put(c[2], cls, seen + (name,))
    return None

def forward_pairs(src, macro):
    m = re.search(r'macro_rules! ' + macro + r'\s*', src)
    blk = body_at(src, src.index('{', m.end()))
    out = []
    for mm in re.finditer(r'fn\s+(\w+)\s*(?:<[^>]*>)?\s*\(([^)]*)\)[^{;]*\{', blk):
        b = ' '.join(body_at(blk, mm.end() - 1).split())
        t = re.search(r'\(\*\*self\)\.(\w+)\(', b)
        out.append((mm.group(1), t.group(1) if t else '?'))
    return out

def coq_desc(r):
    return '{| g_try := %s; g_kind := %s; g_size := %d; g_endian := %s; g_signed := %s |}' % (
        'true' if r[0] else 'false', r[1], r[2], r[3], 'true' if r[4] else 'false')

def generate(repo, out_path):
    st = {"translator": "T3", "ok": True, "unparsed": [], "problems": []}
    try:
        bi = strip(open(os.path.join(repo, 'src/buf/buf_impl.rs')).read()); bm = strip(open(os.path.join(repo, 'src/buf/buf_mut.rs')).read())
        buf = trait_block(bi, r'pub trait Buf\s*\{'); bufmut = trait_block(bm, r'pub unsafe trait BufMut\s*\{')
        gm = methods(buf, r'(?:try_)?get_\w+'); pm = methods(bufmut, r'put_(?!slice\b|bytes\b)\w+')
        gcls = {n: classify_get(b) for n, (b, a) in gm.items()}
        pcls = {n: classify_put(b, a) for n, (b, a) in pm.items()}
        getters, putters = [], []
        for n in gm:
            r = resolve_get(n, gcls) if gcls[n] else None
            if r is None: st["unparsed"].append(n)
            else: getters.append((n, r))
        for n in pm:
            r = resolve_put(n, pcls) if pcls[n] else None
            if r is None: st["unparsed"].append(n)
            else: putters.append((n, r))
        fb = forward_pairs(bi, 'deref_forward_buf'); fm = forward_pairs(bm, 'deref_forward_bufmut')
        tk = strip(open(os.path.join(repo, 'src/buf/take.rs')).read())
        m = re.search(r'const LEN: usize = (\d+);', tk); take_len = int(m.group(1)) if m else None
        if take_len is None: st["problems"].append("take.rs: const LEN not found"); take_len = 16
        m = re.search(r'unsafe impl BufMut for Vec<u8>.*?fn chunk_mut.*?self\.reserve\((\d+)\)', bm, re.S); vec_res = int(m.group(1)) if m else None
        bmr = strip(open(os.path.join(repo, 'src/bytes_mut.rs')).read())
        m2 = re.search(r'unsafe impl BufMut for BytesMut.*?fn chunk_mut.*?self\.reserve\((\d+)\)', bmr, re.S); bm_res = int(m2.group(1)) if m2 else None
        if vec_res is None: st["problems"].append("Vec chunk_mut reserve constant not found"); vec_res = 64
        if bm_res is None: st["problems"].append("BytesMut chunk_mut reserve constant not found"); bm_res = 64
        all_buf = re.findall(r'fn\s+(\w+)', buf); all_mut = re.findall(r'fn\s+(\w+)', bufmut)
    except Exception as e:   # source no longer has the shape this reader understands
        st["ok"] = False; st["problems"].append("T3 could not read the source: %r" % (e,))
        return st
    if st["unparsed"] or st["problems"]: st["ok"] = False
    L = ["(* REGENERATED ON EVERY RUN by translators/t3_tables.py from /repo/src/buf/{buf_impl,buf_mut,take}.rs and src/bytes_mut.rs *)",
         "From Coq Require Import String List NArith.", "From BV Require Import Codec.", "Import ListNotations.", "Local Open Scope string_scope.", ""]
    def tbl(name, rows): return "Definition %s : list (string * gdesc) := [\n  %s\n]." % (name, ";\n  ".join('("%s", %s)' % (n, coq_desc(r)) for n, r in rows))
    def pairs(name, rows): return "Definition %s : list (string * string) := [\n  %s\n]." % (name, ";\n  ".join('("%s", "%s")' % p for p in rows))
    def names(name, rows): return "Definition %s : list string := [%s]." % (name, "; ".join('"%s"' % n for n in rows))
    L += [tbl("getters", getters), tbl("putters", putters), pairs("buf_forward", fb), pairs("bufmut_forward", fm),
          names("buf_methods", all_buf), names("bufmut_methods", all_mut), names("unparsed_methods", st["unparsed"]),
          "Definition take_len : N := %d%%N." % take_len, "Definition vec_reserve : N := %d%%N." % vec_res, "Definition bytesmut_reserve : N := %d%%N." % bm_res]
    text = "\n".join(L) + "\n"
    old = open(out_path).read() if os.path.exists(out_path) else None
    if old != text:
        os.makedirs(os.path.dirname(out_path), exist_ok=True); open(out_path, "w").write(text)
    st.update({"getters": len(getters), "putters": len(putters), "buf_forward": len(fb), "bufmut_forward": len(fm),
               "not_forwarded_buf": sorted(set(all_buf) - {a for a, _ in fb}), "not_forwarded_bufmut": sorted(set(all_mut) - {a for a, _ in fm}),
               "take_len": take_len})
    return st

if __name__ == "__main__":
    import json; print(json.dumps(generate(sys.argv[1] if len(sys.argv) > 1 else "/repo", sys.argv[2] if len(sys.argv) > 2 else "/dev/stdout"), indent=1))

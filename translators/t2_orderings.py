#!/usr/bin/env python3
"""T2: from the CURRENT /repo/src/bytes.rs and bytes_mut.rs
 (a) the memory orderings at the atomic call sites of the three reference-count protocols and of the promotion of an unshared
     Vec-backed Bytes  ->  coq/theories/Gen/Orderings.v  (instances of the `ords` records of Conc/Core.v, Conc/Cells.v, Conc/Promote.v);
 (b) the ATOMIC SKELETON: per reference-counting function the sequence of atomic operations and of ownership-moving calls, compared
     with the committed golden skeleton (translators/t2_golden.json); and the total number of atomic operations per file (an atomic
     operation outside the known functions is a skeleton mismatch).
A mismatch of (b) means the model's micro-steps no longer describe the code: reported as a broken tie."""
import re, os, sys, json
HERE = os.path.dirname(os.path.abspath(__file__))
FUNCS = {
 'bytes.rs': ['owned_clone','owned_to_vec','owned_to_mut','owned_drop_impl','owned_drop','promotable_even_clone','promotable_odd_clone',
     'promotable_to_vec','promotable_to_mut','promotable_even_drop','promotable_odd_drop','promotable_is_unique',
     'shared_clone','shared_to_vec_impl','shared_to_vec','shared_to_mut_impl','shared_to_mut','shared_is_unique','shared_drop',
     'shallow_clone_arc','shallow_clone_vec','release_shared'],
 'bytes_mut.rs': ['increment_shared','release_shared','is_unique','shared_v_clone','shared_v_to_vec','shared_v_to_mut','shared_v_is_unique','shared_v_drop',
     'reserve_inner','shallow_clone','promote_to_shared','freeze','try_unsplit'],
}
ATOMIC = re.compile(r'\.\s*(load|store|swap|fetch_add|fetch_sub|fetch_or|fetch_and|compare_exchange(?:_weak)?|with_mut|get_mut)\s*\(')
CALLS = re.compile(r'\b(shallow_clone_arc|shallow_clone_vec|release_shared|increment_shared|owned_drop_impl|Box::from_raw|mem::forget|mem::replace|dealloc|free_boxed_slice|Vec::from_raw_parts|is_unique|promote_to_shared)\s*\(')
def strip_comments(src):
    src = re.sub(r'//[^\n]*', '', src)
    return re.sub(r'/\*.*?\*/', '', src, flags=re.S)
def fn_body(src, name):
    m = re.search(r'\bfn\s+%s\s*(?:<[^>]*>)?\s*\(' % re.escape(name), src)
    if not m: return None
    i = src.index('{', m.end()); depth = 0; j = i
    while True:
        c = src[j]
        if c == '{': depth += 1
        elif c == '}':
            depth -= 1
            if depth == 0: break
        j += 1
    return src[i:j+1]
def args_of(body, pos):
    depth = 0; j = pos
    while True:
        c = body[j]
        if c == '(': depth += 1
        elif c == ')':
            depth -= 1
            if depth == 0: break
        j += 1
    return body[pos+1:j]
def extract(repo):
    out = {}; totals = {}
    for f, names in FUNCS.items():
        src = strip_comments(open(os.path.join(repo, 'src', f)).read())
        # the test / loom modules at the end of the files are not part of the protocol
        cut = src.find('#[cfg(all(test, loom))]');  src_main = src if cut < 0 else src[:cut]
        totals[f] = len([m for m in ATOMIC.finditer(src_main) if m.group(1) not in ('get_mut',)])
        for n in names:
            b = fn_body(src_main, n)
            key = f[:-3] + '::' + n
            if b is None: out[key] = None; continue
            toks = []
            for m in sorted(list(ATOMIC.finditer(b)) + list(CALLS.finditer(b)), key=lambda m: m.start()):
                a = args_of(b, m.end() - 1)
                if m.re is ATOMIC: toks.append([m.group(1), re.findall(r'Ordering::(\w+)', a)])
                else: toks.append(['call', m.group(1)])
            out[key] = toks
    return out, totals
def skeleton(ex): return {k: (None if v is None else [[t[0]] if t[0] != 'call' else t for t in v]) for k, v in ex.items()}
COQ = {'Relaxed': 'Rlx', 'Acquire': 'Acq', 'Release': 'Rel', 'AcqRel': 'AcqRel', 'SeqCst': 'SeqCst'}
def ordering(ex, fn, method, idx=0, which=0, problems=None):
    """ordering `which` of the idx-th call of `method` in function fn; a missing site is reported and read as Relaxed"""
    toks = [t for t in (ex.get(fn) or []) if t[0] == method]
    try: return COQ[toks[idx][1][which]]
    except Exception:
        if problems is not None: problems.append("no `%s` #%d with ordering #%d in %s" % (method, idx, which, fn))
        return 'Rlx'
def generate(repo, out_path):
    st = {"translator": "T2", "ok": True, "problems": [], "skeleton_diffs": []}
    try: ex, totals = extract(repo)
    except Exception as e:
        st["ok"] = False; st["problems"].append("T2 could not read the source: %r" % (e,)); return st
    P = st["problems"]
    o = lambda fn, m, idx=0, which=0: ordering(ex, fn, m, idx, which, P)
    lines = ["(* REGENERATED ON EVERY RUN by translators/t2_orderings.py from /repo/src/bytes.rs and bytes_mut.rs *)",
             "From BV.Conc Require Core Cells Promote.", ""]
    # bytes.rs Shared: clone = shallow_clone_arc; drop = release_shared; into Vec = CAS; into BytesMut = load
    lines.append("Definition bytes_shared : Core.ords := {| Core.o_inc := Core.%s; Core.o_dec := Core.%s; Core.o_decload := Core.%s; Core.o_cas_s := Core.%s; Core.o_cas_f := Core.%s; Core.o_uniq := Core.%s |}." % (
        o('bytes::shallow_clone_arc', 'fetch_add'), o('bytes::release_shared', 'fetch_sub'), o('bytes::release_shared', 'load'),
        o('bytes::shared_to_vec_impl', 'compare_exchange', 0, 0), o('bytes::shared_to_vec_impl', 'compare_exchange', 0, 1), o('bytes::shared_to_mut_impl', 'load')))
    # OwnedLifetime: clone / drop only (no exclusive taker: the CAS / uniqueness sites do not exist; the model never takes those steps for it)
    lines.append("Definition bytes_owned : Core.ords := {| Core.o_inc := Core.%s; Core.o_dec := Core.%s; Core.o_decload := Core.%s; Core.o_cas_s := Core.AcqRel; Core.o_cas_f := Core.Rlx; Core.o_uniq := Core.Acq |}." % (
        o('bytes::owned_clone', 'fetch_add'), o('bytes::owned_drop_impl', 'fetch_sub'), o('bytes::owned_drop_impl', 'load')))
    # bytes_mut.rs Shared: increment_shared / release_shared / is_unique (guards to_vec, to_mut, reserve, try_reclaim, From<BytesMut> for Vec)
    lines.append("Definition bytesmut_shared : Cells.ords := {| Cells.o_inc := Cells.%s; Cells.o_dec := Cells.%s; Cells.o_decload := Cells.%s; Cells.o_uniq := Cells.%s |}." % (
        o('bytes_mut::increment_shared', 'fetch_add'), o('bytes_mut::release_shared', 'fetch_sub'), o('bytes_mut::release_shared', 'load'), o('bytes_mut::is_unique', 'load')))
    lines.append("Definition bytesmut_shared_core : Core.ords := {| Core.o_inc := Core.%s; Core.o_dec := Core.%s; Core.o_decload := Core.%s; Core.o_cas_s := Core.%s; Core.o_cas_f := Core.Rlx; Core.o_uniq := Core.%s |}." % (
        o('bytes_mut::increment_shared', 'fetch_add'), o('bytes_mut::release_shared', 'fetch_sub'), o('bytes_mut::release_shared', 'load'), o('bytes_mut::is_unique', 'load'), o('bytes_mut::is_unique', 'load')))
    # promotion of an unshared Vec-backed Bytes: every reader of the `data` cell that goes on to touch the control block
    cas_s, cas_f = o('bytes::shallow_clone_vec', 'compare_exchange', 0, 0), o('bytes::shallow_clone_vec', 'compare_exchange', 0, 1)
    for nm in ('promotable_even_clone', 'promotable_odd_clone', 'promotable_to_vec', 'promotable_to_mut', 'promotable_is_unique'):
        lines.append("Definition promote_via_%s : Promote.ords := {| Promote.o_load := Promote.%s; Promote.o_cas_s := Promote.%s; Promote.o_cas_f := Promote.%s |}." % (nm, o('bytes::' + nm, 'load'), cas_s, cas_f))
    lines.append("Definition promote_instances : list Promote.ords := cons promote_via_promotable_even_clone (cons promote_via_promotable_odd_clone (cons promote_via_promotable_to_vec (cons promote_via_promotable_to_mut (cons promote_via_promotable_is_unique nil)))).")
    # skeleton
    sk = skeleton(ex)
    gp = os.path.join(HERE, "t2_golden.json")
    golden = json.load(open(gp)) if os.path.exists(gp) else None
    if golden is None:
        st["problems"].append("no golden skeleton (translators/t2_golden.json)")
    else:
        for k in sorted(set(golden["skeleton"]) | set(sk)):
            if golden["skeleton"].get(k) != sk.get(k):
                st["skeleton_diffs"].append({"function": k, "expected": golden["skeleton"].get(k), "found": sk.get(k)})
        for f in totals:
            if golden["totals"].get(f) != totals[f]:
                st["skeleton_diffs"].append({"function": f + " (whole file)", "expected": "%s atomic operations" % golden["totals"].get(f), "found": "%d atomic operations" % totals[f]})
    lines.append("Definition skeleton_matches : bool := %s." % ("true" if (golden is not None and not st["skeleton_diffs"]) else "false"))
    text = "\n".join(lines) + "\n"
    old = open(out_path).read() if os.path.exists(out_path) else None
    if old != text:
        os.makedirs(os.path.dirname(out_path), exist_ok=True); open(out_path, "w").write(text)
    if st["problems"] or st["skeleton_diffs"]: st["ok"] = False
    st["sites"] = {k: v for k, v in ex.items() if v}
    st["totals"] = totals
    return st
if __name__ == "__main__":
    if len(sys.argv) > 1 and sys.argv[1] == "--write-golden":
        ex, totals = extract("/repo"); json.dump({"skeleton": skeleton(ex), "totals": totals}, open(os.path.join(HERE, "t2_golden.json"), "w"), indent=1, sort_keys=True); print("golden written")
    else:
        r = generate(sys.argv[1] if len(sys.argv) > 1 else "/repo", sys.argv[2] if len(sys.argv) > 2 else "/dev/stdout"); print(json.dumps({k: r[k] for k in ("ok", "problems", "skeleton_diffs", "totals")}, indent=1))

#!/usr/bin/env python3
"""T6: inventory of the code M6 (Adversary.v) transliterates, from the CURRENT /repo/src:
 (a) every `unsafe` block / `unsafe fn` / `unsafe impl` of the files that consume user-supplied safe trait implementations
     (src/buf/*.rs, src/serde.rs), with its enclosing function and normalised text;
 (b) the normalised bodies of the consumer functions the model follows branch for branch (the getters macro, the copy loops, Take / Chain,
     Reader, IntoIter, the default BufMut::put*, the slice / Vec / BytesMut targets, UninitSlice::copy_from_slice, extend_from_slice,
     Extend / FromIterator, from_owner).
Compared with the committed golden (translators/t6_golden.json).  A difference means: an unsafe site the model does not account for, or
a consumer whose guards are no longer the ones the proof uses -> Gen/UnsafeSites.v says inventory_matches = false (broken tie)."""
import re, os, sys, json, hashlib
HERE = os.path.dirname(os.path.abspath(__file__))
sys.path.insert(0, HERE)
from t2_orderings import strip_comments
WHOLE = ['buf/buf_impl.rs', 'buf/buf_mut.rs', 'buf/chain.rs', 'buf/take.rs', 'buf/limit.rs', 'buf/iter.rs', 'buf/reader.rs', 'buf/writer.rs', 'buf/uninit_slice.rs', 'buf/vec_deque.rs', 'buf/mod.rs', 'serde.rs']
# (file, kind, header regex) - kind 'fn': first fn of that name after `after` (regex, optional); 'block': brace block following the header
ITEMS = [
 ('buf/buf_impl.rs', 'block', r'macro_rules!\s*buf_try_get_impl', 'buf_try_get_impl!'),
 ('buf/buf_impl.rs', 'fn', r'fn\s+try_copy_to_slice\s*\(', 'Buf::try_copy_to_slice'),
 ('buf/buf_impl.rs', 'fn', r'fn\s+copy_to_slice\s*\(', 'Buf::copy_to_slice'),
 ('buf/buf_impl.rs', 'fn', r'fn\s+copy_to_bytes\s*\(', 'Buf::copy_to_bytes'),
 ('buf/buf_impl.rs', 'fn', r'fn\s+try_get_u8\s*\(', 'Buf::try_get_u8'),
 ('buf/buf_impl.rs', 'fn', r'fn\s+chunks_vectored\s*<', 'Buf::chunks_vectored'),
 ('buf/buf_impl.rs', 'fn', r'fn\s+has_remaining\s*\(', 'Buf::has_remaining'),
 ('buf/take.rs', 'block', r'impl\s*<T:\s*Buf>\s*Buf\s+for\s+Take<T>', 'impl Buf for Take'),
 ('buf/chain.rs', 'block', r'impl\s*<T,\s*U>\s*Buf\s+for\s+Chain<T,\s*U>', 'impl Buf for Chain'),
 ('buf/reader.rs', 'block', r'impl\s*<B:\s*Buf\s*\+\s*Sized>\s*io::Read\s+for\s+Reader<B>', 'impl Read for Reader'),
 ('buf/iter.rs', 'block', r'impl\s*<T:\s*Buf>\s*Iterator\s+for\s+IntoIter<T>', 'impl Iterator for IntoIter'),
 ('buf/buf_mut.rs', 'fn', r'fn\s+put\s*<T:\s*super::Buf>\s*\(', 'BufMut::put (default)'),
 ('buf/buf_mut.rs', 'fn', r'fn\s+put_slice\s*\(', 'BufMut::put_slice (default)'),
 ('buf/buf_mut.rs', 'fn', r'fn\s+put_bytes\s*\(', 'BufMut::put_bytes (default)'),
 ('buf/buf_mut.rs', 'block', r'unsafe\s+impl\s+BufMut\s+for\s+&mut\s+\[u8\]', 'impl BufMut for &mut [u8]'),
 ('buf/buf_mut.rs', 'block', r'unsafe\s+impl\s+BufMut\s+for\s+&mut\s+\[core::mem::MaybeUninit<u8>\]', 'impl BufMut for &mut [MaybeUninit<u8>]'),
 ('buf/buf_mut.rs', 'block', r'unsafe\s+impl\s+BufMut\s+for\s+Vec<u8>', 'impl BufMut for Vec<u8>'),
 ('buf/uninit_slice.rs', 'fn', r'fn\s+copy_from_slice\s*\(', 'UninitSlice::copy_from_slice'),
 ('buf/uninit_slice.rs', 'fn', r'fn\s+write_byte\s*\(', 'UninitSlice::write_byte'),
 ('bytes_mut.rs', 'fn', r'fn\s+extend_from_slice\s*\(', 'BytesMut::extend_from_slice'),
 ('bytes_mut.rs', 'fn', r'fn\s+spare_capacity_mut\s*\(', 'BytesMut::spare_capacity_mut'),
 ('bytes_mut.rs', 'block', r'unsafe\s+impl\s+BufMut\s+for\s+BytesMut', 'impl BufMut for BytesMut'),
 ('bytes_mut.rs', 'block', r'impl\s+Extend<u8>\s+for\s+BytesMut', 'impl Extend<u8> for BytesMut'),
 ('bytes_mut.rs', 'block', r"impl\s*<'a>\s*Extend<&'a\s+u8>\s+for\s+BytesMut", "impl Extend<&u8> for BytesMut"),
 ('bytes_mut.rs', 'block', r'impl\s+Extend<Bytes>\s+for\s+BytesMut', 'impl Extend<Bytes> for BytesMut'),
 ('bytes_mut.rs', 'block', r'impl\s+FromIterator<u8>\s+for\s+BytesMut', 'impl FromIterator<u8> for BytesMut'),
 ('bytes_mut.rs', 'block', r'impl\s+Buf\s+for\s+BytesMut', 'impl Buf for BytesMut'),
 ('bytes.rs', 'fn', r'fn\s+from_owner\s*<T>\s*\(', 'Bytes::from_owner'),
 ('bytes.rs', 'block', r'impl\s+FromIterator<u8>\s+for\s+Bytes', 'impl FromIterator<u8> for Bytes'),
 ('bytes.rs', 'block', r'impl\s+Buf\s+for\s+Bytes\b', 'impl Buf for Bytes'),
 ('serde.rs', 'block', r'macro_rules!\s*serde_impl', 'serde_impl!'),
]
KEYWORDS = set("as break const continue crate else enum extern false fn for if impl in let loop match mod move mut pub ref return self Self static struct super trait true type unsafe use where while dyn".split())
def alpha(s):
    """rename the identifiers a body binds itself (let / for / closure parameters / match-arm and if-let patterns) to v1, v2, ... in order of
    binding, so that a pure renaming of locals does not count as a difference.  Occurrences after `.` or `::` (fields, methods, paths) are left alone."""
    bound = []
    def add(pat):
        for t in re.findall(r"(?<![\w:$'])(?<!(?<!\.)\.)([a-z_][A-Za-z0-9_]*)\b(?!\s*(?:::|\(|!|\{))", pat):
            if t not in KEYWORDS and t != "_" and t not in bound: bound.append(t)
    for m in re.finditer(r"\blet\s+(?:mut\s+)?([^=;]+?)(?::[^=;]+)?=(?!=)", s): add(m.group(1))
    for m in re.finditer(r"\bfor\s+(.+?)\s+in\b", s): add(m.group(1))
    for m in re.finditer(r"(?<![|\w)])\|([^|{};]*)\|(?!\|)", s): add(re.sub(r":[^,|]+", "", m.group(1)))
    for m in re.finditer(r"(?:\b[A-Z]\w*(?:::\w+)*)\s*\(([^()]*)\)\s*(?:=>|=(?!=))", s): add(m.group(1))
    out = s
    for i, t in enumerate(bound):
        out = re.sub(r"(?<![\w$'])(?<!(?<!\.)\.)(?<!::)%s\b" % re.escape(t), "v%d" % (i + 1), out)
    return out
def norm(s): return alpha(re.sub(r'\s+', ' ', s).strip())
def block_from(src, start):
    i = src.index('{', start); depth = 0; j = i
    while True:
        c = src[j]
        if c == '{': depth += 1
        elif c == '}':
            depth -= 1
            if depth == 0: break
        j += 1
    return src[i:j + 1]
def main_part(src):
    for marker in ('#[cfg(all(test, loom))]', '#[cfg(test)]'):
        k = src.find(marker)
        if k >= 0: src = src[:k]
    return src
def unsafe_sites(src):
    out = []
    for m in re.finditer(r'\bunsafe\b', src):
        rest = src[m.end():m.end() + 200].lstrip()
        # enclosing fn = the last `fn name` before
        fns = list(re.finditer(r'\bfn\s+(\w+)', src[:m.start()]))
        enc = fns[-1].group(1) if fns else '-'
        if rest.startswith('{'): out.append([enc, 'block', norm(block_from(src, m.end()))])
        elif rest.startswith('fn'): out.append([re.match(r'fn\s+(\w+)', rest).group(1), 'unsafe fn', ''])
        elif rest.startswith('impl'): out.append(['-', 'unsafe impl', norm(rest.split('{')[0])])
        elif rest.startswith('trait'): out.append(['-', 'unsafe trait', norm(rest.split('{')[0])])
        else: out.append([enc, 'other', norm(rest[:60])])
    return out
def extract(repo):
    inv = {"unsafe": {}, "bodies": {}}
    cache = {}
    def load(f):
        if f not in cache: cache[f] = main_part(strip_comments(open(os.path.join(repo, 'src', f)).read()))
        return cache[f]
    for f in WHOLE:
        p = os.path.join(repo, 'src', f)
        if not os.path.exists(p): inv["unsafe"][f] = None; continue
        inv["unsafe"][f] = unsafe_sites(load(f))
    for f, kind, rx, name in ITEMS:
        try:
            src = load(f); m = re.search(rx, src)
            inv["bodies"][name] = None if not m else norm(block_from(src, m.end() - (1 if kind == 'fn' else 0)))
        except Exception as e:
            inv["bodies"][name] = None
    # the number of *.rs files under src/buf: a new file is a new potential consumer
    inv["buf_files"] = sorted(x for x in os.listdir(os.path.join(repo, 'src', 'buf')) if x.endswith('.rs'))
    return inv
def coq_str(s): return '"' + s.replace('"', '""') + '"'
def generate(repo, out_path):
    st = {"translator": "T6", "ok": True, "problems": [], "diffs": []}
    try: inv = extract(repo)
    except Exception as e:
        st["ok"] = False; st["problems"].append("T6 could not read the source: %r" % (e,)); inv = None
    gp = os.path.join(HERE, "t6_golden.json")
    golden = json.load(open(gp)) if os.path.exists(gp) else None
    if golden is None: st["problems"].append("no golden inventory (translators/t6_golden.json)")
    if inv is not None and golden is not None:
        for f in sorted(set(golden["unsafe"]) | set(inv["unsafe"])):
            a, b = golden["unsafe"].get(f), inv["unsafe"].get(f)
            if a != b:
                ga = [tuple(x) for x in (a or [])]; gb = [tuple(x) for x in (b or [])]
                new = [x for x in gb if x not in ga]; gone = [x for x in ga if x not in gb]
                st["diffs"].append({"what": "unsafe sites of src/%s" % f, "new": new[:4], "gone": gone[:4]})
        for k in sorted(set(golden["bodies"]) | set(inv["bodies"])):
            if golden["bodies"].get(k) != inv["bodies"].get(k):
                st["diffs"].append({"what": "consumer `%s`" % k, "expected": (golden["bodies"].get(k) or "<absent>")[:300], "found": (inv["bodies"].get(k) or "<absent>")[:300]})
        if golden.get("buf_files") != inv["buf_files"]:
            st["diffs"].append({"what": "files of src/buf", "expected": golden.get("buf_files"), "found": inv["buf_files"]})
    ok = inv is not None and golden is not None and not st["diffs"] and not st["problems"]
    nsites = sum(len(v or []) for v in (inv or {"unsafe": {}})["unsafe"].values())
    lines = ["(* REGENERATED ON EVERY RUN by translators/t6_unsafe.py from /repo/src *)", "From Coq Require Import String List NArith.", "Open Scope string_scope.",
             "Definition unsafe_site_count : N := %d%%N." % nsites,
             "Definition consumers_followed : list string := %s." % ("".join("cons %s (" % coq_str(k) for k in sorted((inv or {"bodies": {}})["bodies"])) + "nil" + ")" * len((inv or {"bodies": {}})["bodies"])),
             "Definition inventory_matches : bool := %s." % ("true" if ok else "false")]
    text = "\n".join(lines) + "\n"
    old = open(out_path).read() if os.path.exists(out_path) else None
    if old != text:
        os.makedirs(os.path.dirname(out_path), exist_ok=True); open(out_path, "w").write(text)
    st["ok"] = ok; st["unsafe_sites"] = nsites; st["consumers"] = len((inv or {"bodies": {}})["bodies"])
    return st
if __name__ == "__main__":
    if len(sys.argv) > 1 and sys.argv[1] == "--write-golden":
        json.dump(extract("/repo"), open(os.path.join(HERE, "t6_golden.json"), "w"), indent=1, sort_keys=True); print("golden written")
    else:
        r = generate(sys.argv[1] if len(sys.argv) > 1 else "/repo", sys.argv[2] if len(sys.argv) > 2 else "/dev/stdout"); print(json.dumps(r, indent=1)[:3000])

let () =
  match Sys.argv with
  | [| _; "fmt" |] -> Run_fmt.run ()
  | [| _; "buf" |] -> Run_buf.run ()
  | [| _; "cmp" |] -> Run_cmp.run ()
  | [| _; "bufmut" |] -> Run_bufmut.run ()
  | [| _; "heap" |] -> Run_heap.run ()
  | [| _; "recycle" |] -> Run_recycle.run ()
  | [| _; "adv" |] -> Run_adv.run ()
  | _ -> prerr_endline "usage: modelrun <engine>"; exit 2

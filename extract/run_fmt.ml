(* E5/fmt: decide C15's predicates on what the implementation printed, with the Coq definitions *)
open Model
type string = Stdlib.String.t
open Conv
let run () =
  let n = ref 0 and bad = ref 0 and nontriv = ref 0 in
  let seen = Hashtbl.create 1024 in
  let report kind detail = incr bad; if !bad <= 50 then Printf.printf "MISMATCH %s %s\n" kind detail in
  let tbl ty which = tbl_of (match ty, which with
    | `B, `D -> bytes_debug_codes | `M, `D -> bytesmut_debug_codes
    | `B, `L -> bytes_lower_codes | `M, `L -> bytesmut_lower_codes
    | `B, `U -> bytes_upper_codes | `M, `U -> bytesmut_upper_codes) in
  iter_lines (fun line ->
    match split_ws line with
    | ["F"; repr; inp; d; l; u] ->
      incr n;
      if not (Hashtbl.mem seen inp) then begin Hashtbl.add seen inp (); if String.length inp >= 2 then incr nontriv end;
      let ty = if String.length repr >= 3 && String.sub repr 0 3 = "mut" then `M else `B in
      let bs = ns_of_hex inp in
      let ds = str_of_string (string_of_hex d) in
      (* direct property: the output is a literal that decodes to the contents *)
      (match parse_lit ds with
       | Some r when r = bs -> ()
       | Some r -> report "debug-decodes-differently" (Printf.sprintf "repr=%s input=%s output=%s decoded=%s" repr inp d (hex_of_ns r))
       | None -> report "debug-not-a-literal" (Printf.sprintf "repr=%s input=%s output=%s" repr inp d));
      (* correspondence: formatter = per-byte homomorphism over the regenerated table *)
      if debug_fmt (tbl ty `D) bs <> ds then report "debug-not-homomorphic" (Printf.sprintf "repr=%s input=%s output=%s" repr inp d);
      let hexcheck nm cls which o =
        let os = str_of_string (string_of_hex o) in
        (match unhex os with
         | Some r when r = bs -> ()
         | _ -> report (nm ^ "-does-not-decode") (Printf.sprintf "repr=%s input=%s output=%s" repr inp o));
        if List.length os <> 2 * List.length bs then report (nm ^ "-length") (Printf.sprintf "repr=%s input=%s output=%s" repr inp o);
        if not (List.for_all cls os) then report (nm ^ "-charset") (Printf.sprintf "repr=%s input=%s output=%s" repr inp o);
        if hex_fmt (tbl ty which) bs <> os then report (nm ^ "-not-homomorphic") (Printf.sprintf "repr=%s input=%s output=%s" repr inp o) in
      hexcheck "lowerhex" is_lower_hex `L l; hexcheck "upperhex" is_upper_hex `U u
    | ["S"; ty; entry; inp; res] ->
      incr n; if String.length inp >= 2 then incr nontriv;
      let bs = ns_of_hex inp in
      let tok = match String.split_on_char ':' entry with
        | ["bytes"] -> TBytes bs | ["borrowedbytes"] -> TBorrowedBytes bs | ["bytebuf"] -> TByteBuf bs
        | ["seq"; h] -> TSeq ((if h = "none" then None else Some (n_of_string h)), bs)
        | ["str"] | ["borrowedstr"] -> TStr bs | ["string"] -> TString bs
        | _ -> failwith ("entry " ^ entry) in
      if hex_of_ns (visit tok) <> res then report "serde-visit" (Printf.sprintf "type=%s entry=%s input=%s result=%s" ty entry inp res)
    | ["Z"; repr; inp; res] ->
      incr n;
      (match serialize (ns_of_hex inp) with
       | TBytes b when hex_of_ns b = res -> ()
       | _ -> report "serde-serialize" (Printf.sprintf "repr=%s input=%s result=%s" repr inp res))
    | ["T"; inp; r] -> incr n; if r <> "ok" then report "serde-test-tokens" (Printf.sprintf "input=%s" inp)
    | [] -> ()
    | _ -> report "unparsed-line" line);
  Printf.printf "STATS evaluations=%d distinct_nontrivial=%d mismatches=%d\n" !n !nontriv !bad

(* E1 (model side): replays every history on the extracted heap model M2 and value model M1;
   (i) evaluates the predicates of C01/C02/C03/C04/C07/C08/C13 DIRECTLY on what the implementation reported (kinds cNN-x),
   (ii) compares outcome, return value, allocator events and every handle with M2 (kinds model-x), and M2 with M1 (kind model-refinement). *)
open Model
type string = Stdlib.String.t
open Conv
(* long byte strings: `z<seed>x<len>` in operation arguments (a pattern both sides generate), `#<len>:<fnv1a64>` for observed / expected contents *)
let zbyte seed i = (seed + i * 131 + (i / 251) * 17) land 255
let ns_of_hex (s : string) = if String.length s > 0 && s.[0] = 'z' then (match String.split_on_char 'x' (String.sub s 1 (String.length s - 1)) with [a; b] -> let seed = int_of_string a and len = int_of_string b in List.init len (fun i -> n_of_int (zbyte seed i)) | _ -> failwith "zdata") else Conv.ns_of_hex s
let hex_of_ns (l : Model.n list) : string =
  let len = List.length l in
  if len <= 96 then Conv.hex_of_ns l else begin
    let h = ref 0xcbf29ce484222325L in
    List.iter (fun b -> h := Int64.mul (Int64.logxor !h (Int64.of_int (int_of_n b))) 0x100000001b3L) l;
    Printf.sprintf "#%d_%016Lx" len !h end

let split_on_first c s = match String.index_opt s c with None -> (s, "") | Some k -> (String.sub s 0 k, String.sub s (k + 1) (String.length s - k - 1))
let pos_of_string s = match n_of_string s with Npos p -> p | N0 -> XH
let string_of_pos p = string_of_n (Npos p)
let rec string_of_cstring (s : Model.string) : string = match s with EmptyString -> "" | String (c, r) -> String.make 1 (char_of_ascii c) ^ string_of_cstring r

type ih = { id : int; kind : char; blk : string; ofs : string; len : int; cap : string; hex : string; uniq : string }
let parse_state (s : string) : ih list =
  if s = "~" || s = "" then [] else
  List.map (fun t -> match String.split_on_char ':' t with
    | [id; k; blk; ofs; len; cap; hex; uq] -> { id = int_of_string id; kind = k.[0]; blk; ofs; len = int_of_string len; cap; hex; uniq = uq }
    | _ -> failwith ("handle record " ^ t)) (String.split_on_char ',' s)

let parse_op (op : string) : op =
  let f = String.split_on_char ':' op in
  let a k = List.nth f k in
  let nn k = n_of_string (a k) and pp k = pos_of_string (a k) and bb k = ns_of_hex (a k) in
  match List.hd f with
  | "bnew" -> OBNew | "bstatic" -> OBFromStatic (bb 1) | "bfv" -> OBFromVec (bb 1, nn 2) | "bowner" -> OBFromOwner (bb 1, a 2 = "1")
  | "mnew" -> OMNew | "mcap" -> OMWithCapacity (nn 1) | "mzero" -> OMZeroed (nn 1) | "mslice" -> OMFromSlice (bb 1)
  | "bclone" -> OBClone (pp 1) | "bslice" -> OBSlice (pp 1, nn 2, nn 3) | "bslicei" -> OBSliceIncl (pp 1, nn 2, nn 3)
  | "bsliceref" -> OBSliceRef (pp 1, if a 2 = "x" then None else Some (nn 2, nn 3))
  | "bsplitoff" -> OBSplitOff (pp 1, nn 2) | "bsplitto" | "bctb" -> OBSplitTo (pp 1, nn 2) | "btrunc" -> OBTruncate (pp 1, nn 2) | "bclear" -> OBClear (pp 1)
  | "badv" -> OBAdvance (pp 1, nn 2) | "buniq" -> OBIsUnique (pp 1) | "btryinto" -> OBTryIntoMut (pp 1) | "binto" -> OBIntoMut (pp 1) | "bvec" -> OBIntoVec (pp 1) | "bdrop" -> OBDrop (pp 1)
  | "msplitoff" -> OMSplitOff (pp 1, nn 2) | "msplitto" -> OMSplitTo (pp 1, nn 2) | "msplit" -> OMSplit (pp 1) | "mtrunc" -> OMTruncate (pp 1, nn 2) | "mclear" -> OMClear (pp 1)
  | "mresize" -> OMResize (pp 1, nn 2, nn 3) | "mreserve" -> OMReserve (pp 1, nn 2) | "mreclaim" -> OMTryReclaim (pp 1, nn 2) | "mext" -> OMExtend (pp 1, bb 2) | "mexti" -> OMExtendIter (pp 1, bb 2, nn 3)
  | "mwrite" -> OMWrite (pp 1, nn 2, nn 3) | "munsplit" -> OMUnsplit (pp 1, pp 2) | "mfreeze" -> OMFreeze (pp 1) | "mvec" -> OMIntoVec (pp 1) | "madv" -> OMAdvance (pp 1, nn 2)
  | "mclone" -> OMClone (pp 1) | "mdrop" -> OMDrop (pp 1) | "vbytes" -> OVIntoBytes (pp 1) | "vdrop" -> OVDrop (pp 1)
  | _ -> failwith ("op " ^ op)
(* public entry points that the source defines through other entry points (EntryDef.v: xop, expand; Entry.v: the two models compute the same
   expansion on related states and the refinement of histories carries over).  The runner only parses the harness token into an `xop`;
   each model expands it on ITS OWN state (view2 of the heap model, view1 of the value model). *)
type xo = Base of op | X of xop
let parse_xop (op : string) : xo =
  let f = String.split_on_char ':' op in
  let a k = List.nth f k in
  let nn k = n_of_string (a k) and pp k = pos_of_string (a k) and bb k = ns_of_hex (a k) in
  match List.hd f with
  | "bcopy" -> X (XBCopyFromSlice (bb 1)) | "bfbox" -> X (XBFromBox (bb 1)) | "bfiter" -> X (XBFromIter (bb 1)) | "bfstr" -> X (XBFromString (bb 1, nn 2))
  | "mfiter" -> X (XMFromIter (bb 1)) | "mfstr" -> X (XMFromStr (bb 1))
  | "mextb" -> X (XMExtendBytes (pp 1, if a 2 = "~" then [] else List.map ns_of_hex (String.split_on_char ',' (a 2))))
  | "mextr" -> X (XMExtendRef (pp 1, bb 2)) | "mput" -> X (XMPutSlice (pp 1, bb 2)) | "mfmt" -> X (XMWriteStr (pp 1, bb 2)) | "mspare" -> X (XMSpare (pp 1, bb 2))
  | "mputb" -> X (XMPutBytes (pp 1, nn 2, nn 3)) | "msetlen" -> X (XMSetLen (pp 1, nn 2)) | "mctb" -> X (XMCopyToBytes (pp 1, nn 2)) | "mputbuf" -> X (XMPutBuf (pp 1, pp 2))
  | _ -> Base (parse_op op)
let ops1 (x : xo) (t : sst) : op list = match x with Base o -> [o] | X x -> expand (view1 t) x
let ops2 (x : xo) (s : hst) : op list = match x with Base o -> [o] | X x -> expand (view2 s) x
let rec sstep_seq cap ubit (ops : op list) (s : sst) (last : retv) : sout = match ops with
  | [] -> SOk (s, last)
  | o :: r -> (match sstep cap ubit o s with SOk (s', rv) -> sstep_seq cap ubit r s' rv | other -> other)
let rec run_seq orc (ops : op list) (s : hst) (last : retv) (acc : ev list) = match ops with
  | [] -> OK (last, s, acc)
  | o :: r -> (match run_op orc o s with OK (rv, s', e) -> run_seq orc r s' rv (acc @ e) | PANIC (s', e) -> PANIC (s', acc @ e) | UB w -> UB w)
let show_ev = function
  | EAlloc (XO p, sz) -> Printf.sprintf "a%s:%s" (string_of_pos p) (string_of_n sz) | EAlloc (_, sz) -> "a?:" ^ string_of_n sz
  | EFree (XO p, sz) -> Printf.sprintf "f%s:%s" (string_of_pos p) (string_of_n sz) | EFree (_, sz) -> "f?:" ^ string_of_n sz
  | ERealloc (XO a, XO b, sz) -> Printf.sprintf "r%s:%s:%s" (string_of_pos a) (string_of_pos b) (string_of_n sz) | ERealloc (_, _, sz) -> "r?:" ^ string_of_n sz
  | EAllocCtrl -> "ac" | EFreeCtrl -> "fc" | EOwnerDrop o -> "od" ^ string_of_pos o | EOwnerAsRef o -> "oa" ^ string_of_pos o
let show_evs l = if l = [] then "~" else String.concat "," (List.map show_ev l)
let blk_of_sid = function Some (XO p) -> string_of_pos p | Some (XI _) -> "d" | Some XH -> "?" | None -> "*"
(* expected record of a model handle *)
(* long contents are read and hashed once per (storage data, window) / per value of M1: the lists of an untouched storage or value are
   physically the same objects after a step, which is what the memo tables test (==); they are emptied at the start of every history *)
let memo2 : (string, (Model.n list * bool * Model.n * Model.n list * string)) Hashtbl.t = Hashtbl.create 64
let memo1 : (string, (Model.n list * string)) Hashtbl.t = Hashtbl.create 64
let contents_memo (st : hst) (x : handle) : (Model.n list * string) option =
  let slow () = match handle_contents st x with Some bs -> Some (bs, hex_of_ns bs) | None -> None in
  let key = match x with HB (Some k, ofs, len, _, _) -> Some (k, ofs, len) | HM (k, ofs, len, _, _) -> Some (k, ofs, len) | HV (k, len, _) -> Some (k, N0, len) | _ -> None in
  match key with
  | Some (k, ofs, len) when int_of_n len > 96 ->
    (match List.assoc_opt k (storages_of st) with
     | None -> slow ()
     | Some sto ->
       let ks = string_of_pos k ^ ":" ^ string_of_n ofs ^ ":" ^ string_of_n len in
       (match Hashtbl.find_opt memo2 ks with
        | Some (d, live, size, bs, hx) when d == sto.s_data && live = sto.s_live && size = sto.s_size -> Some (bs, hx)
        | _ -> (match slow () with Some (bs, hx) -> Hashtbl.replace memo2 ks (sto.s_data, sto.s_live, sto.s_size, bs, hx); Some (bs, hx) | None -> None)))
  | _ -> slow ()
let memo3 : (string, (Model.n list * Model.n list)) Hashtbl.t = Hashtbl.create 64
let same_lists (id : string) (a : Model.n list) (b : Model.n list) : bool =
  a == b || (match Hashtbl.find_opt memo3 id with Some (a0, b0) when a0 == a && b0 == b -> true | _ -> let r = (a = b) in if r then Hashtbl.replace memo3 id (a, b); r)
let hex1 (id : string) (l : Model.n list) : string =
  match Hashtbl.find_opt memo1 id with
  | Some (l0, hx) when l0 == l -> hx
  | _ -> let hx = hex_of_ns l in (match l with _ :: _ :: _ -> Hashtbl.replace memo1 id (l, hx) | _ -> ()); hx
let show_mh (st : hst) (id : positive) (x : handle) : string =
  let hexo = match contents_memo st x with Some (_, hx) -> hx | None -> "?" in
  match x with
  | HB (k, ofs, len, _, _) -> Printf.sprintf "%s:B:%s:%s:%s:-:%s:%s" (string_of_pos id) (blk_of_sid k) (string_of_n ofs) (string_of_n len) hexo (match handle_unique st x with Some true -> "1" | Some false -> "0" | None -> "?")
  | HM (k, ofs, len, cap, _) -> Printf.sprintf "%s:M:%s:%s:%s:%s:%s:-" (string_of_pos id) (blk_of_sid (Some k)) (string_of_n ofs) (string_of_n len) (string_of_n cap) hexo
  | HV (k, len, cap) -> Printf.sprintf "%s:V:%s:0:%s:%s:%s:-" (string_of_pos id) (blk_of_sid (Some k)) (string_of_n len) (string_of_n cap) hexo
let show_ih (h : ih) = Printf.sprintf "%d:%c:%s:%s:%d:%s:%s:%s" h.id h.kind h.blk h.ofs h.len h.cap h.hex h.uniq
(* compare an implementation record with the model's: addresses of handles that hold no memory are unspecified *)
let same_handle (m : string) (i : ih) : bool =
  match String.split_on_char ':' m with
  | [id; k; blk; ofs; len; cap; hex; uq] ->
    let iblk = if String.length i.blk > 0 && i.blk.[0] = 's' then String.sub i.blk 1 (String.length i.blk - 1) else i.blk in
    let iblk = if i.len = 0 && i.kind = 'B' then fst (split_on_first '!' iblk) else iblk in
    id = string_of_int i.id && k.[0] = i.kind && len = string_of_int i.len && cap = i.cap && hex = i.hex && uq = i.uniq
    && (blk = "*" || (blk = "d" && (iblk = "d" || iblk = "x")) || (blk = iblk && ofs = i.ofs))
  | _ -> false

let sharing_ops = ["bclone"; "bslice"; "bslicei"; "bsliceref"; "bsplitoff"; "bsplitto"; "bctb"; "btrunc"; "bclear"; "badv"; "mfreeze"; "msplitoff"; "msplitto"; "msplit"; "mtrunc"; "mclear"; "madv"; "bstatic"]
let is_alloc_ev e = String.length e > 0 && (e.[0] = 'a' && e <> "ac" || e.[0] = 'r')

let run () =
  let cases = ref 0 and steps = ref 0 and bad = ref 0 and nontriv = ref 0 in
  let dist = Hashtbl.create 64 and perkind = Hashtbl.create 64 in
  let bump k = Hashtbl.replace dist k (1 + try Hashtbl.find dist k with Not_found -> 0) in
  let samples = ref 0 in
  iter_lines (fun line ->
    match split_ws line with
    | ("E1" | "E1A" as tag) :: oddf :: toks ->
      incr cases;
      let odd = (oddf = "odd=1") in
      (* E1A: the byte buffers of this history were ADJACENT in memory (ledger arena mode): an end pointer of one block is the start pointer of the next,
         so the address-to-block attribution of the harness is ambiguous there and the address-based predicates are not evaluated; contents, bounds of
         BytesMut windows, frees, leaks, use after free and panics are *)
      let arena = (tag = "E1A") in
      (* one line per history and PROPERTY (the first three characters of the kind: c01, c04, ..., mod): every property's check sees the first
         mismatch of its own kinds, also when a mismatch of another property's kind comes earlier in the same history *)
      let reported : (string, unit) Hashtbl.t = Hashtbl.create 4 in
      let report kind detail =
        if arena && List.mem kind ["c07-address"; "c08-is-unique"; "c08-try-into-mut"; "c08-sole-owner-reclaim"; "c04-overlap"; "c03-freed-while-in-use"; "c13-state-changed"; "model-state"; "model-events"; "model-return"] then () else begin
        incr bad;
        let c = try Hashtbl.find perkind kind with Not_found -> 0 in Hashtbl.replace perkind kind (c + 1);
        let pre = String.sub kind 0 (min 3 (String.length kind)) in
        if not (Hashtbl.mem reported pre) && c < 4 then (Hashtbl.replace reported pre (); Printf.printf "MISMATCH %s %s :: %s\n" kind detail line) end in
      let nontrivial = ref false in
      Hashtbl.reset memo1; Hashtbl.reset memo2; Hashtbl.reset memo3;
      (try
        let mst = ref (hst0 odd) and sst = ref sst0 in
        let prev : ih list ref = ref [] in
        let sizes : (string, int) Hashtbl.t = Hashtbl.create 16 in
        let freed : (string, unit) Hashtbl.t = Hashtbl.create 16 in
        let owner_drops = Hashtbl.create 4 and owner_asref = Hashtbl.create 4 in
        let model_ok = ref true in
        let digest = Buffer.create 256 in
        List.iter (fun tok ->
          incr steps;
          let (op, rest) = split_on_first '=' tok in
          let fields = String.split_on_char '|' rest in
          let outcome = List.nth fields 0 and ret = List.nth fields 1 and evs = List.nth fields 2 in
          let state = if List.length fields > 3 then List.nth fields 3 else "" in
          let rz_bad = List.mem "RZ!" fields in
          let ievs = if evs = "~" then [] else String.split_on_char ',' evs in
          let ipanic = (outcome = "panic") in
          let is_end = String.length op >= 4 && String.sub op 0 4 = "end:" in
          let opname = List.hd (String.split_on_char ':' op) in
          bump ("op_" ^ (if is_end then "end" else opname)); if ipanic then (bump "panic"; nontrivial := true);
          (* ---- C02: allocator-level violations are failing inputs by themselves ---- *)
          List.iter (fun e ->
            if String.length e > 7 && (let l = String.length e in String.sub e (l - 7) 7 = "!double") then report "c02-double-free" ("op=" ^ op ^ " event " ^ e)
            else (try ignore (Str.search_forward (Str.regexp_string "!layout") e 0); report "c02-wrong-layout" ("op=" ^ op ^ " freed with a layout different from the allocation's: " ^ e) with Not_found -> ());
            (match e.[0] with
             | 'a' when e <> "ac" -> let (b, s) = split_on_first ':' (String.sub e 1 (String.length e - 1)) in Hashtbl.replace sizes b (int_of_string s)
             | 'r' -> (match String.split_on_char ':' (String.sub e 1 (String.length e - 1)) with [o; nw; s] -> Hashtbl.replace freed o (); Hashtbl.replace sizes nw (int_of_string s) | _ -> ())
             | 'f' when e <> "fc" && String.length e > 1 && e.[1] <> 'c' -> let (b, _) = split_on_first ':' (String.sub e 1 (String.length e - 1)) in Hashtbl.replace freed b ()
             | 'o' -> let t = if e.[1] = 'd' then owner_drops else owner_asref in let k = String.sub e 2 (String.length e - 2) in Hashtbl.replace t k (1 + try Hashtbl.find t k with Not_found -> 0)
             | _ -> ())) ievs;
          if rz_bad then report "c02-red-zone" ("op=" ^ op ^ " wrote outside an allocation (red zone damaged)");
          if is_end then begin
            (* ---- C03: everything released exactly once, owners dropped once, as_ref called once ---- *)
            (match List.filter (fun f -> String.length f > 5 && String.sub f 0 5 = "live:") fields with
             | [l] -> if l <> "live:~;ctrl:0" then report "c03-leak" ("after dropping every handle the ledger still holds " ^ l)
             | _ -> report "model-obs" "no ledger summary");
            Hashtbl.iter (fun k n -> if n <> 1 then report "c03-owner-as-ref" (Printf.sprintf "owner %s: as_ref called %d times" k n)) owner_asref;
            Hashtbl.iter (fun k _ -> let d = try Hashtbl.find owner_drops k with Not_found -> 0 in if d <> 1 then report "c03-owner-drop" (Printf.sprintf "owner %s dropped %d times" k d)) owner_asref;
            if ipanic then report "c13-drop-panicked" "dropping a handle panicked";
            (* model: drop everything in the same order *)
            if !model_ok then begin
              let order = let o = String.sub op 4 (String.length op - 4) in if o = "~" then [] else List.map pos_of_string (String.split_on_char ',' o) in
              let mevs = ref [] in
              List.iter (fun h ->
                let x = List.assoc_opt h (handles_of !mst) in
                let dop = match x with Some (HB _) -> Some (OBDrop h) | Some (HM _) -> Some (OMDrop h) | Some (HV _) -> Some (OVDrop h) | None -> None in
                match dop with
                | Some d -> (match run_op [] d !mst with OK (_, s, e) -> mst := s; mevs := !mevs @ e | PANIC (s, e) -> mst := s; mevs := !mevs @ e | UB w -> report "model-ub" ("final drop: " ^ string_of_cstring w))
                | None -> ()) order;
              if show_evs !mevs <> evs then report "model-events" (Printf.sprintf "final drops: model=%s impl=%s" (show_evs !mevs) evs);
              List.iter (fun (k, st) -> if st.s_live && (st.s_cls = SHeap || st.s_cls = SOwnerMem) then report "model-leak" ("model storage still live: " ^ blk_of_sid (Some k))) (storages_of !mst)
            end
          end else begin
            let ist = (try parse_state state with Failure m -> report "model-obs" m; []) in
            (* views into freed memory *)
            List.iter (fun h -> try ignore (Str.search_forward (Str.regexp_string "!dead") h.blk 0);
                                   if h.len > 0 || h.kind <> 'B' then report "c03-freed-while-in-use" (Printf.sprintf "op=%s handle %d points into a freed block (%s)" op h.id h.blk) with Not_found -> ()) ist;
            let find_prev id = List.find_opt (fun h -> h.id = id) !prev in
            let f = String.split_on_char ':' op in
            let argi k = try int_of_string (List.nth f k) with _ -> -1 in
            let newh = if String.length ret > 1 && ret.[0] = 'h' then List.find_opt (fun h -> h.id = int_of_string (String.sub ret 1 (String.length ret - 1))) ist else None in
            (* ---- C13: a panic leaves every handle as it was ---- *)
            if ipanic then begin
              List.iter (fun p -> match List.find_opt (fun h -> h.id = p.id) ist with
                | Some h -> if show_ih h <> show_ih p && not (h.kind = 'B' && p.kind = 'B' && { h with uniq = "" } = { p with uniq = "" }) then report "c13-state-changed" (Printf.sprintf "op=%s panicked and changed handle %d: %s -> %s" op p.id (show_ih p) (show_ih h))
                | None -> if opname <> "munsplit" then report "c13-state-changed" (Printf.sprintf "op=%s panicked and handle %d disappeared" op p.id)) !prev;
              if List.exists is_alloc_ev ievs && opname <> "bowner" then report "c13-state-changed" (Printf.sprintf "op=%s panicked but allocated: %s" op evs)
            end;
            (* ---- C04: BytesMut regions exclusive, in bounds; reserve / try_reclaim contracts ---- *)
            let region h = (int_of_string h.ofs, int_of_string h.ofs + (if h.kind = 'M' then int_of_string h.cap else h.len)) in
            List.iter (fun h -> if h.kind = 'M' && h.blk <> "d" && h.blk <> "x" then begin
                let (lo, hi) = region h in
                (match Hashtbl.find_opt sizes h.blk with Some sz -> if hi > sz then report "c04-out-of-bounds" (Printf.sprintf "op=%s BytesMut %d covers [%d,%d) of a %d-byte allocation" op h.id lo hi sz) | None -> ());
                if Hashtbl.mem freed h.blk then report "c03-freed-while-in-use" (Printf.sprintf "op=%s BytesMut %d lives on freed block %s" op h.id h.blk);
                List.iter (fun g -> if g.id <> h.id && g.blk = h.blk && (g.kind = 'M' || g.len > 0) && (g.kind <> 'M' || g.id > h.id) then begin
                    let (l2, h2) = region g in
                    if lo < h2 && l2 < hi && hi > lo && h2 > l2 then report "c04-overlap" (Printf.sprintf "op=%s handles %d [%d,%d) and %d [%d,%d) overlap on block %s" op h.id lo hi g.id l2 h2 h.blk) end) ist end) ist;
            (match opname, find_prev (argi 1), List.find_opt (fun h -> h.id = argi 1) ist with
             | "mreserve", Some p, Some h when not ipanic ->
               let n = n_of_string (List.nth f 2) in
               if N.ltb (n_of_int (int_of_string h.cap - h.len)) n then report "c04-reserve" (Printf.sprintf "reserve(%s) returned with capacity %s len %d" (List.nth f 2) h.cap h.len);
               if h.hex <> p.hex || h.len <> p.len then report "c04-reserve" (Printf.sprintf "reserve changed the contents: %s -> %s" p.hex h.hex)
             | "mreclaim", Some p, Some h when not ipanic ->
               let n = n_of_string (List.nth f 2) in
               if ret = "b1" then begin
                 if N.ltb (n_of_int (int_of_string h.cap - h.len)) n then report "c04-try-reclaim" (Printf.sprintf "try_reclaim(%s) = true with capacity %s len %d" (List.nth f 2) h.cap h.len);
                 if h.hex <> p.hex then report "c04-try-reclaim" "try_reclaim changed the contents";
                 if List.exists is_alloc_ev ievs then report "c04-try-reclaim" ("try_reclaim allocated: " ^ evs)
               end else if show_ih h <> show_ih p then report "c04-try-reclaim" (Printf.sprintf "try_reclaim = false changed the handle: %s -> %s" (show_ih p) (show_ih h));
               (* C08: an empty handle alone on its block can always take the whole allocation back *)
               let alone = not (List.exists (fun g -> g.id <> p.id && g.blk = p.blk) !prev) in
               (match Hashtbl.find_opt sizes p.blk with
                | Some sz when alone && p.len = 0 && N.leb n (n_of_int sz) && ret <> "b1" -> report "c08-sole-owner-reclaim" (Printf.sprintf "empty BytesMut alone on a %d-byte block: try_reclaim(%s) = false" sz (List.nth f 2))
                | _ -> ())
             | _ -> ());
            (if opname = "mreserve" && not ipanic then match find_prev (argi 1) with
               | Some p -> let alone = not (List.exists (fun g -> g.id <> p.id && g.blk = p.blk) !prev) in
                 (match Hashtbl.find_opt sizes p.blk with
                  | Some sz when alone && p.len = 0 && N.leb (n_of_string (List.nth f 2)) (n_of_int sz) && List.exists is_alloc_ev ievs -> report "c08-sole-owner-reclaim" (Printf.sprintf "empty BytesMut alone on a %d-byte block: reserve(%s) allocated (%s)" sz (List.nth f 2) evs)
                  | _ -> ())
               | None -> ());
            (* ---- C07: sharing operations neither allocate byte buffers nor move the bytes ---- *)
            if not ipanic && List.mem opname sharing_ops && List.exists is_alloc_ev ievs then report "c07-allocates" (Printf.sprintf "op=%s allocated a byte buffer: %s" op evs);
            let addr h = (h.blk, int_of_string h.ofs) in
            let expect_addr what h (b, o) = if h.blk <> "d" && h.blk <> "x" || b <> "d" then (if addr h <> (b, o) then report "c07-address" (Printf.sprintf "op=%s: %s is at %s+%s, expected %s+%d" op what h.blk h.ofs b o)) in
            (if not ipanic then match opname, find_prev (argi 1), List.find_opt (fun h -> h.id = argi 1) ist, newh with
              | "bclone", Some p, _, Some nh -> if p.len > 0 then expect_addr "the clone" nh (addr p)
              | ("bslice" | "bslicei" | "bsliceref"), Some p, _, Some nh -> if nh.len > 0 then expect_addr "the slice" nh (p.blk, int_of_string p.ofs + (if opname = "bsliceref" then argi 2 else argi 2))
              | "bsplitoff", Some p, Some s, Some nh -> expect_addr "self" s (addr p); expect_addr "the returned half" nh (p.blk, int_of_string p.ofs + argi 2)
              | ("bsplitto" | "bctb"), Some p, Some s, Some nh -> expect_addr "the returned half" nh (addr p); expect_addr "self" s (p.blk, int_of_string p.ofs + argi 2)
              | ("btrunc" | "bclear" | "mtrunc" | "mclear"), Some p, Some s, _ -> if s.len > 0 || opname.[0] = 'm' then expect_addr "self" s (addr p)
              | ("badv" | "madv"), Some p, Some s, _ -> if s.len > 0 then expect_addr "self" s (p.blk, int_of_string p.ofs + argi 2)
              | "msplitoff", Some p, Some s, Some nh -> expect_addr "self" s (addr p); if nh.len > 0 then expect_addr "the returned half" nh (p.blk, int_of_string p.ofs + argi 2)
              | ("msplitto" | "msplit"), Some p, Some s, Some nh -> let at = if opname = "msplit" then p.len else argi 2 in if nh.len > 0 then expect_addr "the returned half" nh (addr p); if s.len > 0 then expect_addr "self" s (p.blk, int_of_string p.ofs + at)
              | "mfreeze", Some p, _, Some nh -> if nh.len > 0 then expect_addr "the frozen Bytes" nh (addr p)
              | ("btryinto" | "binto"), Some p, _, Some nh -> if p.uniq = "1" && p.len > 0 then (expect_addr "the BytesMut" nh (addr p); if List.exists is_alloc_ev ievs then report "c07-allocates" (Printf.sprintf "op=%s of a unique buffer allocated: %s" op evs))
              | "munsplit", Some p, Some s, _ when p.len = 0 -> (match find_prev (argi 2) with
                  | Some q when q.len > 0 -> expect_addr "self (took the place of other)" s (addr q); if List.exists is_alloc_ev ievs then report "c07-allocates" (Printf.sprintf "op=%s with an empty receiver allocated: %s" op evs)
                  | _ -> ())
              | "munsplit", Some p, Some s, _ -> (match find_prev (argi 2) with
                  | Some q when p.len > 0 && q.blk = p.blk && int_of_string q.ofs = int_of_string p.ofs + p.len && int_of_string p.cap = p.len && q.blk <> "d" && int_of_string q.cap > 0 ->
                    expect_addr "self" s (addr p); if List.exists is_alloc_ev ievs then report "c07-allocates" (Printf.sprintf "op=%s of adjacent halves allocated: %s" op evs)
                  | _ -> ())
              | _ -> ());
            (* ---- C08: is_unique / try_into_mut ---- *)
            List.iter (fun h -> if h.kind = 'B' && h.len > 0 then begin
                let others = List.filter (fun g -> g.id <> h.id && g.blk = h.blk) ist in
                let heap = (String.length h.blk > 0 && h.blk.[0] <> 's' && h.blk <> "d" && h.blk <> "x") in
                if h.uniq = "1" && List.exists (fun g -> g.len > 0 || g.kind <> 'B') others then report "c08-is-unique" (Printf.sprintf "op=%s: Bytes %d reports is_unique although handle(s) %s share block %s" op h.id (String.concat "," (List.map (fun g -> string_of_int g.id) others)) h.blk);
                if h.uniq = "1" && not heap then report "c08-is-unique" (Printf.sprintf "op=%s: static / owner-backed Bytes %d reports is_unique" op h.id)
              end) ist;
            (if opname = "btryinto" && not ipanic then match find_prev (argi 1) with
              | Some p -> if (ret = "err") <> (p.uniq = "0") then report "c08-try-into-mut" (Printf.sprintf "try_into_mut returned %s while is_unique was %s" ret p.uniq);
                (match newh with Some nh when p.uniq = "1" && p.blk <> "d" && p.blk <> "x" -> if (nh.blk, nh.ofs) <> (p.blk, p.ofs) then report "c08-try-into-mut" (Printf.sprintf "try_into_mut of a unique buffer returned other memory: %s+%s -> %s+%s" p.blk p.ofs nh.blk nh.ofs) | _ -> ())
              | None -> ());
            if opname = "buniq" && not ipanic then (match find_prev (argi 1) with Some p -> if ret <> "b" ^ p.uniq then report "c08-is-unique" "is_unique() differs between two consecutive calls" | None -> ());
            (* ---- models ---- *)
            if !model_ok then begin
              let xo = parse_xop op in
              let orc = List.filter_map (fun e -> if e.[0] = 'r' then (match String.split_on_char ':' e with [_; _; s] -> Some (n_of_string (fst (split_on_first '!' s))) | _ -> None)
                                                  else if e.[0] = 'a' && e <> "ac" then Some (n_of_string (snd (split_on_first ':' e))) else None) ievs in
              (* M1 first: the value model with the concrete side's capacity / uniqueness bit *)
              let pcap = (match find_prev (argi 1) with Some p when p.kind = 'M' -> n_of_string p.cap | _ -> N0) in
              let ubit = (match opname with "buniq" -> ret = "b1" | "btryinto" -> ret <> "err" | "mreclaim" -> ret = "b1" | _ -> false) in
              (match sstep_seq pcap ubit (ops1 xo !sst) !sst RUnit with
               | SOk (s', r) ->
                 if ipanic then report "c13-unexpected-panic" (Printf.sprintf "op=%s panicked; the value model gives a result (in-contract call)" op)
                 else begin
                   sst := s';
                   (* C01: every handle reads what its history says *)
                   let vs = svals_of s' in
                   List.iter (fun (h : ih) -> match List.assoc_opt (pos_of_string (string_of_int h.id)) vs with
                     | Some v -> let hx = hex1 (string_of_int h.id) v.sv_bytes in if hx <> h.hex then report "c01-contents" (Printf.sprintf "op=%s: handle %d reads %s, its history says %s" op h.id h.hex hx)
                     | None -> report "c01-contents" (Printf.sprintf "op=%s: handle %d should not exist" op h.id)) ist;
                   if List.length vs <> List.length ist then report "c01-contents" (Printf.sprintf "op=%s: %d handles live, the value model has %d" op (List.length ist) (List.length vs));
                   (match r with RH p -> if ret <> "h" ^ string_of_pos p then report "c01-return" (Printf.sprintf "op=%s returned %s, expected h%s" op ret (string_of_pos p)) | _ -> ())
                 end
               | SPanic -> if not ipanic then report "c13-missing-panic" (Printf.sprintf "op=%s is out of contract (the value model panics) but the call returned %s" op ret)
               | SStuck -> report "model-obs" ("value model stuck on " ^ op));
              (* M2 *)
              (match run_seq orc (ops2 xo !mst) !mst RUnit [] with
               | UB w -> model_ok := false; report "model-ub" (Printf.sprintf "op=%s: the heap model reaches undefined behaviour: %s" op (string_of_cstring w))
               | (OK (_, s', e) | PANIC (s', e)) as res ->
                 let mpanic = (match res with PANIC _ -> true | _ -> false) in
                 mst := s';
                 if mpanic <> ipanic then report "model-outcome" (Printf.sprintf "op=%s model %s impl %s" op (if mpanic then "panics" else "returns") outcome)
                 else begin
                   (match res with OK (r, _, _) ->
                      let mr = if opname = "mfmt" then "b1" else (match r with RUnit -> "-" | RBool true -> "b1" | RBool false -> "b0" | RH p -> "h" ^ string_of_pos p | RErr _ -> "err") in
                      if mr <> ret then report "model-return" (Printf.sprintf "op=%s model=%s impl=%s" op mr ret) | _ -> ());
                   if show_evs e <> evs then report "model-events" (Printf.sprintf "op=%s model=%s impl=%s" op (show_evs e) evs);
                   let mh = List.sort compare (List.map (fun (id, x) -> (int_of_n (Npos id), show_mh s' id x)) (handles_of s')) in
                   if List.length mh <> List.length ist then report "model-state" (Printf.sprintf "op=%s model has %d handles, impl %d" op (List.length mh) (List.length ist))
                   else List.iter2 (fun (_, m) i -> if not (same_handle m i) then report "model-state" (Printf.sprintf "op=%s model=%s impl=%s" op m (show_ih i))) mh (List.sort (fun a b -> compare a.id b.id) ist);
                   (* M2 refines M1 *)
                   let vs = svals_of !sst in
                   List.iter (fun (id, x) -> match List.assoc_opt id vs, contents_memo s' x with
                     | Some v, Some (bs, _) -> if not (same_lists (string_of_pos id) v.sv_bytes bs) then report "model-refinement" (Printf.sprintf "op=%s handle %s: heap model reads %s, value model %s" op (string_of_pos id) (hex_of_ns bs) (hex_of_ns v.sv_bytes))
                     | _, _ -> if not ipanic then report "model-refinement" (Printf.sprintf "op=%s handle %s missing in one model" op (string_of_pos id))) (handles_of s')
                 end)
            end;
            (* digest for C16: what must not depend on the configuration *)
            Buffer.add_string digest (Printf.sprintf "%s>%s>%s>%s;" op outcome ret (String.concat "," (List.map (fun h -> Printf.sprintf "%d%c%d%s" h.id h.kind h.len h.hex) ist)));
            prev := ist;
            if List.length ist >= 2 then nontrivial := true
          end) toks;
        Printf.printf "DIGEST %d %s\n" !cases (Digest.to_hex (Digest.string (Buffer.contents digest)))
      with Failure m -> report "model-obs" ("driver: " ^ m) | Not_found -> report "model-obs" "driver: Not_found" | Invalid_argument m -> report "model-obs" ("driver: " ^ m));
      if !nontrivial then incr nontriv;
      if !samples < 6 && !nontrivial && String.length line < 2500 then (incr samples; Printf.printf "SAMPLE %s\n" line)
    | [] -> ()
    | _ -> incr bad; Printf.printf "MISMATCH model-obs unparsed-line :: %s\n" line);
  Printf.printf "STATS evaluations=%d steps=%d distinct_nontrivial=%d mismatches=%d\n" !cases !steps !nontriv !bad;
  Printf.printf "DIST %s\n" (String.concat " " (Hashtbl.fold (fun k v acc -> Printf.sprintf "%s=%d" k v :: acc) dist []));
  Printf.printf "KINDS %s\n" (String.concat " " (Hashtbl.fold (fun k v acc -> Printf.sprintf "%s=%d" k v :: acc) perkind []))

(* conversions between OCaml values and the extracted inductives *)
open Model
type string = Stdlib.String.t
let rec pos_of_int (i : int) : positive =
  if i = 1 then XH else if i land 1 = 0 then XO (pos_of_int (i lsr 1)) else XI (pos_of_int (i lsr 1))
let n_of_int (i : int) : n = if i = 0 then N0 else Npos (pos_of_int i)
let rec int_of_pos = function XH -> 1 | XO p -> 2 * int_of_pos p | XI p -> 2 * int_of_pos p + 1
let int_of_n = function N0 -> 0 | Npos p -> int_of_pos p
let rec nat_of_int i = if i = 0 then O else S (nat_of_int (i - 1))
let rec int_of_nat = function O -> 0 | S k -> 1 + int_of_nat k
(* decimal strings of arbitrary size (usize::MAX does not fit an OCaml int) *)
let n_of_string (s : string) : n =
  let ten = n_of_int 10 in
  let acc = ref N0 in
  String.iter (fun c -> acc := N.add (N.mul !acc ten) (n_of_int (Char.code c - 48))) s; !acc
let string_of_n (x : n) : string =
  (* via positive bits into a decimal string using simple bignum on int lists *)
  let rec bits = function XH -> [1] | XO p -> 0 :: bits p | XI p -> 1 :: bits p in
  match x with
  | N0 -> "0"
  | Npos p ->
    let bs = List.rev (bits p) in (* msb first *)
    (* decimal digits little endian *)
    let digits = ref [0] in
    let double_add b =
      let carry = ref b in
      digits := List.map (fun d -> let v = 2 * d + !carry in carry := v / 10; v mod 10) !digits;
      if !carry > 0 then digits := !digits @ [!carry] in
    List.iter double_add bs;
    String.concat "" (List.rev_map string_of_int !digits)
let ascii_of_char (c : char) : ascii = ascii_of_N (n_of_int (Char.code c))
let char_of_ascii (a : ascii) : char = Char.chr (int_of_n (n_of_ascii a))
let str_of_string (s : string) : ascii list = List.init (String.length s) (fun i -> ascii_of_char s.[i])
let string_of_str (l : ascii list) : string = String.init (List.length l) (fun i -> char_of_ascii (List.nth l i))
let hexdig c = match c with '0'..'9' -> Char.code c - 48 | 'a'..'f' -> Char.code c - 87 | 'A'..'F' -> Char.code c - 55 | _ -> failwith "hexdig"
let ints_of_hex (s : string) : int list =
  if s = "-" then [] else List.init (String.length s / 2) (fun i -> 16 * hexdig s.[2*i] + hexdig s.[2*i+1])
let string_of_hex (s : string) : string =
  if s = "-" then "" else String.init (String.length s / 2) (fun i -> Char.chr (16 * hexdig s.[2*i] + hexdig s.[2*i+1]))
let hex_of_ints (l : int list) : string =
  if l = [] then "-" else String.concat "" (List.map (Printf.sprintf "%02x") l)
let ns_of_hex s = List.map n_of_int (ints_of_hex s)
let hex_of_ns l = hex_of_ints (List.map int_of_n l)
let split_ws (s : string) : string list = List.filter (fun x -> x <> "") (String.split_on_char ' ' s)
let iter_lines (f : string -> unit) =
  (try while true do f (input_line stdin) done with End_of_file -> ())
(* Z and Coq strings *)
let string_of_z = function Z0 -> "0" | Zpos p -> string_of_n (Npos p) | Zneg p -> "-" ^ string_of_n (Npos p)
let z_of_string (s : string) : z =
  if s = "" then Z0 else if s.[0] = '-' then (match n_of_string (String.sub s 1 (String.length s - 1)) with N0 -> Z0 | Npos p -> Zneg p)
  else (match n_of_string s with N0 -> Z0 | Npos p -> Zpos p)
let coq_string (s : string) : Model.string =
  let r = ref EmptyString in
  for i = String.length s - 1 downto 0 do r := String (ascii_of_char s.[i], !r) done; !r
let rec is_prefix a b = match a, b with [], _ -> true | x :: a', y :: b' -> x = y && is_prefix a' b' | _ -> false
let rec take_l k l = if k <= 0 then [] else match l with [] -> [] | x :: r -> x :: take_l (k - 1) r
let rec drop_l k l = if k <= 0 then l else match l with [] -> [] | _ :: r -> drop_l (k - 1) r

(* E7 (model side): evaluates the bounds of C18 (theorems of Recycle.v, constants from the extracted `bound`) on the summaries the
   recycling engine measured on the implementation *)
open Model
type string = Stdlib.String.t
open Conv
let run () =
  let n = ref 0 and bad = ref 0 and nontriv = ref 0 in
  let samples = ref 0 in
  iter_lines (fun line ->
    match split_ws line with
    | "R" :: kvs ->
      incr n;
      let tbl = Hashtbl.create 32 in
      List.iter (fun kv -> match String.index_opt kv '=' with Some i -> Hashtbl.replace tbl (String.sub kv 0 i) (String.sub kv (i + 1) (String.length kv - i - 1)) | None -> ()) kvs;
      let g k = int_of_string (Hashtbl.find tbl k) in
      let report kind detail = incr bad; Printf.printf "MISMATCH %s %s :: %s\n" kind detail line in
      let b = g "B" and c0 = g "c0" and k = g "k" in
      let bnd = (match bound (z_of_string (string_of_int b)) (z_of_string (string_of_int c0)) with Zpos p -> int_of_pos p | _ -> 0) in
      if g "allocsAll" > 1 then incr nontriv;
      if !samples < 6 then (incr samples; Printf.printf "SAMPLE %s\n" line);
      if g "leak" <> 0 then report "c18-leak" "storage still allocated after the recycling handle and all parts were dropped";
      if g "capmax" > bnd then report "c18-buffer-bound" (Printf.sprintf "capacity %d exceeds max(C0, 4B+8) = %d" (g "capmax") bnd);
      if g "peakAll" > (k + 1) * bnd + 64 then report "c18-peak-bound" (Printf.sprintf "peak live bytes %d exceed (k+1)*max(C0,4B+8) = %d" (g "peakAll") ((k + 1) * bnd));
      (* "no growth between N and FACTOR*N rounds" is the steady-state form of the property and is only demanded of PERIODIC patterns; with seeded-random message
         sizes a larger message may first occur after round N: there only the theorem's round-independent bounds apply (false alarm of vp check 4, DESIGN 9) *)
      let periodic = g "vary" = 0 in
      if periodic && g "peakAll" > 2 * g "peakN" + 64 then report "c18-peak-grows" (Printf.sprintf "peak live heap grew from %d (first %d rounds) to %d (%d rounds)" (g "peakN") (g "n") (g "peakAll") (g "n" * g "f"));
      if g "alone" = 1 then begin
        if periodic && g "allocsAll" <> g "allocsN" then report "c18-allocs-grow" (Printf.sprintf "every part was dropped before the next refill, yet byte-buffer allocations grew from %d (first %d rounds) to %d" (g "allocsN") (g "n") (g "allocsAll"));
        let a = g "allocsAll" in
        if a >= 1 && (a - 1 >= 62 || (1 lsl (a - 1)) > max bnd 1) then report "c18-allocs-bound" (Printf.sprintf "%d allocations: 2^(n-1) exceeds max(C0,4B+8) = %d" a bnd)
      end
    | [] -> ()
    | _ -> ());
  Printf.printf "STATS evaluations=%d distinct_nontrivial=%d mismatches=%d\n" !n !nontriv !bad

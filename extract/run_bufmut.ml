(* E4 (model side): replays the BufMut cases on the extracted M5 model;
   (i) evaluates the laws of C11 and C12 (write half) DIRECTLY on the observations of the implementation (kinds c11-x, c12w-x),
   (ii) compares with the prediction of the model (kinds model-x). *)
open Model
type string = Stdlib.String.t
open Conv

let parse_tgt (s : string) : tgt =
  let i = ref 0 in
  let n = String.length s in
  let tok stops = let st = !i in while !i < n && not (String.contains stops s.[!i]) do incr i done; String.sub s st (!i - st) in
  let eat c = if !i >= n || s.[!i] <> c then failwith (Printf.sprintf "parse target at %d in %s" !i s); incr i in
  let rec tree () =
    match s.[!i] with
    | 'v' | 'm' as k -> i := !i + 2; let d = ns_of_hex (tok "/") in eat '/'; let c = n_of_string (tok ",)") in
      TLeaf (if k = 'v' then TVec (d, c) else TBytesMut (d, c))
    | 's' | 'u' as k -> i := !i + 2; let w = ns_of_hex (tok "|") in eat '|'; let r = tok ",)" in
      if String.length r >= 6 && String.sub r (String.length r - 6) 6 = "!GUARD" then failwith "GUARD";
      let r = ns_of_hex r in TLeaf (if k = 's' then TSlice (w, r) else TUninit (w, r))
    | 'C' -> i := !i + 2; let a = tree () in eat ','; let b = tree () in eat ')'; ChainM (a, b)
    | 'L' -> incr i; let l = n_of_string (tok "(") in eat '('; let x = tree () in eat ')'; LimitM (l, x)
    | 'F' | 'R' -> i := !i + 2; let x = tree () in eat ')'; FwdM x
    | c -> failwith (Printf.sprintf "bad target char %c in %s" c s) in
  let t = tree () in if !i <> n then failwith ("trailing input in target " ^ s); t
let rec show caps (t : tgt) : string =
  match t with
  | TLeaf (TVec (d, c)) -> "v:" ^ hex_of_ns d ^ (if caps then "/" ^ string_of_n c else "")
  | TLeaf (TBytesMut (d, c)) -> "m:" ^ hex_of_ns d ^ (if caps then "/" ^ string_of_n c else "")
  | TLeaf (TSlice (w, r)) -> "s:" ^ hex_of_ns w ^ "|" ^ hex_of_ns r
  | TLeaf (TUninit (w, r)) -> "u:" ^ hex_of_ns w ^ "|" ^ hex_of_ns r
  | ChainM (a, b) -> "C(" ^ show caps a ^ "," ^ show caps b ^ ")"
  | LimitM (n, x) -> "L" ^ string_of_n n ^ "(" ^ show caps x ^ ")"
  | FwdM x -> "F(" ^ show caps x ^ ")"
let norm s = String.map (fun c -> if c = 'R' then 'F' else c) s
let rec leaves (t : tgt) : n list list = match t with TLeaf l -> [tleaf_written l] | ChainM (a, b) -> leaves a @ leaves b | LimitM (_, x) | FwdM x -> leaves x
(* bytes accepted since `init`, in leaf order (a fills before b) *)
let stream init cur = List.concat (List.map2 (fun i c -> drop_l (List.length i) c) (leaves init) (leaves cur))
let split_on_first c s = match String.index_opt s c with None -> (s, "") | Some k -> (String.sub s 0 k, String.sub s (k + 1) (String.length s - k - 1))
let rm = remaining_mut
let cmm t = chunk_mut std_grow vec_reserve bytesmut_reserve t
let rec repeat_pat v k i = if i >= k then [] else n_of_int ((v + i) land 255) :: repeat_pat v k (i + 1)

let run () =
  let cases = ref 0 and steps = ref 0 and bad = ref 0 and nontriv = ref 0 in
  let printed : (string, int) Hashtbl.t = Hashtbl.create 8 in
  let seen = Hashtbl.create 4096 and dist = Hashtbl.create 64 in
  let bump k = Hashtbl.replace dist k (1 + try Hashtbl.find dist k with Not_found -> 0) in
  let samples = ref 0 in
  iter_lines (fun line ->
    match split_ws line with
    | "M" :: tree :: initob :: ops ->
      incr cases;
      let key = tree ^ " " ^ String.concat " " (List.map (fun o -> fst (split_on_first '=' o)) ops) in
      let fresh = not (Hashtbl.mem seen key) in if fresh then Hashtbl.add seen key ();
      (* one line per case and PROPERTY (first three characters of the kind), at most 60 lines per property *)
      let reported : (string, unit) Hashtbl.t = Hashtbl.create 4 in
      let report kind detail = incr bad; let pre = String.sub kind 0 (min 3 (String.length kind)) in
        let c = (try Hashtbl.find printed pre with Not_found -> 0) in
        if not (Hashtbl.mem reported pre) && c < 60 then (Hashtbl.replace reported pre (); Hashtbl.replace printed pre (c + 1); Printf.printf "MISMATCH %s %s :: %s\n" kind detail line) in
      let nontrivial = ref false in
      (try
        let (_, idesc0) = split_on_first '@' initob in
        let init = parse_tgt idesc0 in
        (match init with TLeaf _ -> () | _ -> nontrivial := true);
        let st = ref init in
        let stop = ref false in
        List.iter (fun opobs ->
          if not !stop then begin
            incr steps;
            let (op, rest) = split_on_first '=' opobs in
            let (obs, idesc) = split_on_first '@' rest in
            let f = String.split_on_char ':' op in
            let arg k = try n_of_string (List.nth f k) with _ -> N0 in
            let iarg k = int_of_n (arg k) in
            bump ("op_" ^ List.hd f);
            let ipanic = (obs = "panic") in if ipanic then (bump "panic"; nontrivial := true);
            let room = rm !st in
            (* model step: Some (obs, state) | None = panic *)
            let ok t = Some ("ok", t) in
            let of_res r = (match r with Ok t -> ok t | _ -> None) in
            let (mres, accepted) : ((string * tgt) option * n list option) =
              (match List.hd f with
               | "rm" -> (Some (string_of_n room, !st), Some [])
               | "hrm" -> (Some ((if has_remaining_mut !st then "1" else "0"), !st), Some [])
               | "cm" -> ((match cmm !st with Ok (n, t) -> Some (string_of_n n, t) | _ -> None), Some [])
               | "cw" -> (match cmm !st with
                          | Ok (n, t1) -> if N.ltb n (arg 1) then (Some ("short:" ^ string_of_n n, t1), Some [])
                            else let bs = repeat_pat (iarg 2) (iarg 1) 0 in
                              ((match advance_mut bs t1 with Ok t2 -> Some ("ok:" ^ string_of_n n, t2) | _ -> None), Some bs)
                          | _ -> (None, None))
               | "ub" | "uc" -> (None, None)          (* always out of range / wrong length: the model panics *)
               | "amx" -> (match cmm !st with
                           | Ok (n, t1) -> let k = int_of_n n + 1 + iarg 1 in
                             (of_res (advance_mut (List.init k (fun _ -> n_of_int 0xEE)) t1), None)
                           | _ -> (None, None))
               | "ps" -> let bs = ns_of_hex (List.nth f 1) in (of_res (put_slice std_grow vec_reserve bytesmut_reserve bs !st), Some bs)
               | "pb" -> let bs = List.init (iarg 2) (fun _ -> arg 1) in (of_res (put_bytes std_grow vec_reserve bytesmut_reserve (arg 1) (arg 2) !st), Some bs)
               | "pu" -> let src = Fwd (Run_buf.parse_tree (String.sub op 3 (String.length op - 3))) in
                 ((match put_buf std_grow vec_reserve bytesmut_reserve src !st with Ok (s', t) -> Some ("ok/" ^ Run_buf.show s', t) | _ -> None), Some (den src))
               | "p" -> let nm = List.nth f 1 in
                 let z = z_of_string (List.nth f 2) in
                 let exp = (match spec_of_putter (coq_string nm) with
                            | None -> None
                            | Some d -> let size = if d.g_kind = GKVar then arg 3 else d.g_size in
                              if d.g_kind = GKVar && iarg 3 > 8 then None else Some (enc d.g_endian size z)) in
                 ((match put std_grow vec_reserve bytesmut_reserve putters bufmut_forward (coq_string nm) z (arg 3) !st with
                   | None -> Some ("unknown-method", !st) | Some r -> of_res r), exp)
               | "wr" -> let bs = ns_of_hex (List.nth f 1) in
                 let k = if N.leb (n_of_int (List.length bs)) room then List.length bs else int_of_n room in
                 ((match writer_write std_grow vec_reserve bytesmut_reserve bs !st with Ok (n, t) -> Some (string_of_n n, t) | _ -> None), Some (take_l k bs))
               | "sl" -> let p = if List.nth f 1 = "-" then [] else List.init (String.length (List.nth f 1)) (fun k -> n_of_int (Char.code (List.nth f 1).[k] - 48)) in
                 ((match set_limit_at_m p (arg 2) !st with Some t -> ok t | None -> Some ("nopath", !st)), Some [])
               | _ -> (Some ("unknown-op", !st), Some [])) in
            let ist = (try Some (parse_tgt idesc) with Failure "GUARD" -> report "c11-guard" ("bytes outside the writable region were modified: " ^ idesc); None | _ -> None) in
            (match ist with
             | None -> if not (Hashtbl.mem reported "mod") then report "model-state" ("unparsed state " ^ idesc); stop := true
             | Some ib ->
               (* ---- direct laws ---- *)
               let fits = (match accepted with Some bs -> N.leb (n_of_int (List.length bs)) room | None -> false) in
               let writes = List.mem (List.hd f) ["ps"; "pb"; "pu"; "p"] in
               if writes then begin
                 (match accepted with
                  | None -> if not ipanic then report "c11-nbytes" (Printf.sprintf "op=%s expected a panic (nbytes > 8 or unknown method), got %s" op obs)
                  | Some bs ->
                    if not fits then (if not ipanic then report "c11-nofit" (Printf.sprintf "op=%s: %d bytes do not fit into remaining_mut=%s but the call returned" op (List.length bs) (string_of_n room)))
                    else if ipanic then report "c11-panic" (Printf.sprintf "op=%s panicked although %d bytes fit into remaining_mut=%s" op (List.length bs) (string_of_n room))
                    else begin
                      let got = stream !st ib in
                      if got <> bs then report (if List.hd f = "p" then "c11-encoding" else "c11-appended") (Printf.sprintf "op=%s appended %s, expected exactly %s" op (hex_of_ns got) (hex_of_ns bs))
                    end)
               end;
               if (List.hd f = "cw" || List.hd f = "wr") && not ipanic then begin
                 (match accepted with Some bs when String.length obs < 5 || String.sub obs 0 5 <> "short" ->
                    let got = stream !st ib in
                    if got <> bs then report (if List.hd f = "wr" then "c12w-writer" else "c11-appended") (Printf.sprintf "op=%s appended %s, expected exactly %s" op (hex_of_ns got) (hex_of_ns bs))
                  | _ -> ())
               end;
               if (List.hd f = "ub" || List.hd f = "uc") && not ipanic then
                 report "c11-uninit-slice" (Printf.sprintf "op=%s: UninitSlice accepted an out-of-range index / a source of the wrong length (%s)" op obs);
               if List.hd f = "wr" then begin
                 if ipanic then report "c12w-writer" "Writer::write panicked"
                 else (match accepted with Some bs -> if obs <> string_of_int (List.length bs) then report "c12w-writer" (Printf.sprintf "write returned %s, min(remaining_mut, len) = %d" obs (List.length bs)) | None -> ())
               end;
               if List.hd f = "rm" && not ipanic && obs <> string_of_n room then report "c11-remaining" (Printf.sprintf "remaining_mut()=%s, the target has room for %s" obs (string_of_n room));
               if List.hd f = "cm" && not ipanic then begin
                 let l = n_of_string obs in
                 if (l = N0) <> (room = N0) then report "c11-chunk-mut" (Printf.sprintf "chunk_mut().len()=%s while remaining_mut()=%s" obs (string_of_n room))
                 else if N.ltb room l then report "c11-chunk-mut" (Printf.sprintf "chunk_mut().len()=%s exceeds remaining_mut()=%s" obs (string_of_n room))
               end;
               (* ---- model comparison ---- *)
               if ipanic then begin
                 stop := true;
                 (match mres with None -> () | Some (mo, _) -> report "model-obs" (Printf.sprintf "op=%s implementation panicked, model gives %s" op mo))
               end else begin
                 (match mres with
                  | None -> report "model-obs" (Printf.sprintf "op=%s model panics, implementation returned %s" op obs)
                  | Some (mo, mb) ->
                    if show false mb <> norm (show false ib) then
                      report (if List.exists (fun k -> List.hd f = k) ["ps"; "pb"; "pu"; "p"; "cw"; "amx"] then "c11-state" else "c12w-state")
                        (Printf.sprintf "op=%s contents / limits / untouched regions after the call: expected %s, implementation shows %s" op (show false mb) (show false ib))
                    else if mo <> obs then report "model-obs" (Printf.sprintf "op=%s model=%s impl=%s" op mo obs)
                    else if show true mb <> show true ib then report "model-caps" (Printf.sprintf "op=%s model=%s impl=%s" op (show true mb) (show true ib)));
                 st := ib
               end)
          end) ops
      with Failure m -> report "model-obs" ("driver: " ^ m) | e -> report "model-obs" ("driver exception: " ^ Printexc.to_string e));
      if !nontrivial && fresh then incr nontriv;
      if !samples < 8 && !nontrivial then (incr samples; Printf.printf "SAMPLE %s\n" line)
    | [] -> ()
    | _ -> incr bad; Printf.printf "MISMATCH model-obs unparsed-line :: %s\n" line);
  Printf.printf "STATS evaluations=%d steps=%d distinct_nontrivial=%d mismatches=%d\n" !cases !steps !nontriv !bad;
  Printf.printf "DIST %s\n" (String.concat " " (Hashtbl.fold (fun k v acc -> Printf.sprintf "%s=%d" k v :: acc) dist []))

#!/bin/sh
# builds build/modelrun from extract/gen/model.ml (written by Extract.v) and the drivers here
set -e
cd "$(dirname "$0")"
OUT=../build/ocaml
mkdir -p $OUT
cp gen/model.ml gen/model.mli conv.ml run_*.ml modelrun.ml $OUT/
cd $OUT
ocamlfind ocamlopt -w -a -O3 -unboxed-types 2>/dev/null >/dev/null || true
ocamlfind ocamlopt -w -a -package str -linkpkg model.mli model.ml conv.ml run_fmt.ml run_buf.ml run_cmp.ml run_bufmut.ml run_heap.ml run_recycle.ml run_adv.ml modelrun.ml -o ../modelrun

(* E5/cmp (model side): every observation of a comparison impl must equal the slice-level function Cmp.cmp_bytes *)
open Model
type string = Stdlib.String.t
open Conv
let run () =
  let n = ref 0 and bad = ref 0 and nontriv = ref 0 in
  let seen = Hashtbl.create 65536 and impls = Hashtbl.create 128 and perkind = Hashtbl.create 64 in
  let samples = ref 0 in
  let report kind detail line =
    incr bad;
    let c = try Hashtbl.find perkind kind with Not_found -> 0 in
    Hashtbl.replace perkind kind (c + 1);
    if c < 3 then Printf.printf "MISMATCH %s %s :: %s\n" kind detail line in
  iter_lines (fun line ->
    match split_ws line with
    | ["K"; tr; l; r; lrep; rrep; x; y; res] ->
      incr n;
      let base = List.hd (String.split_on_char '!' tr) in
      Hashtbl.replace impls (base ^ "|" ^ l ^ "|" ^ r) ();
      let key = x ^ "/" ^ y in
      if not (Hashtbl.mem seen key) then (Hashtbl.add seen key (); if x <> y && x <> "-" && y <> "-" then incr nontriv);
      let c = cmp_bytes (ns_of_hex x) (ns_of_hex y) in
      let exp = match tr with
        | "PartialEq" | "PartialEq!ne" -> if c = Eq then "1" else "0"
        | "PartialOrd" | "Ord" -> (match c with Eq -> "eq" | Lt -> "lt" | Gt -> "gt")
        | "PartialOrd!lt" -> if c = Lt then "1" else "0"
        | "PartialOrd!ge" -> if c = Lt then "0" else "1"
        | _ -> "?" in
      if !samples < 6 && x <> y && String.length x > 2 then (incr samples; Printf.printf "SAMPLE %s\n" line);
      if res <> exp then report (Printf.sprintf "c14-%s-%s-vs-%s" tr l r)
          (Printf.sprintf "<%s as %s<%s>> on x=%s (%s) y=%s (%s) gave %s, the slices give %s" l base r x lrep y rrep res exp) line
    | ["H"; ty; rep; x; same; map; bor] ->
      incr n; Hashtbl.replace impls ("Hash|" ^ ty ^ "|") ();
      if same <> "1" then report ("c14-Hash-" ^ ty) (Printf.sprintf "hash of %s (%s) %s differs from the hash of the slice" ty rep x) line;
      if map <> "1" then report ("c14-Borrow-" ^ ty) (Printf.sprintf "HashMap<%s,_>::get(&[u8]) misses for %s (%s)" ty x rep) line;
      if bor <> x then report ("c14-Borrow-" ^ ty) (Printf.sprintf "borrow() of %s (%s) gives %s" x rep bor) line
    | [] -> ()
    | _ -> report "c14-unparsed" "line" line);
  Printf.printf "STATS evaluations=%d distinct_nontrivial=%d mismatches=%d impls_exercised=%d\n" !n !nontriv !bad (Hashtbl.length impls);
  Printf.printf "IMPLS %s\n" (String.concat " " (Hashtbl.fold (fun k _ acc -> (String.map (fun c -> if c = ' ' then '_' else c) k) :: acc) impls []))

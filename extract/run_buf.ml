(* E2/E3 (model side): replays every case the harness printed on the extracted M4 model and
   (i) evaluates the laws of C09/C10/C12 DIRECTLY on the implementation's observations against the flat byte
       sequence (kinds c09-*, c10-*, c12-*: failing inputs), and
   (ii) compares observation and tree state with the model's prediction (kinds model-*: correspondence). *)
open Model
type string = Stdlib.String.t
open Conv

(* ---- tree syntax (same as harness/src/e_buf.rs) ---- *)
let parse_tree (s : string) : buf =
  let i = ref 0 in
  let n = String.length s in
  let tok stops = let st = !i in while !i < n && not (String.contains stops s.[!i]) do incr i done; String.sub s st (!i - st) in
  let eat c = if !i >= n || s.[!i] <> c then failwith (Printf.sprintf "parse tree at %d in %s" !i s); incr i in
  let skip_digits () = while !i < n && s.[!i] >= '0' && s.[!i] <= '9' do incr i done in
  let rec tree () =
    match s.[!i] with
    | 's' -> i := !i + 2; Leaf (LSlice (ns_of_hex (tok ",)")))
    | 'b' -> incr i; skip_digits (); eat ':'; Leaf (LBytes (ns_of_hex (tok ",)")))
    | 'm' -> incr i; skip_digits (); eat ':'; Leaf (LBytesMut (ns_of_hex (tok ",)")))
    | 'c' -> i := !i + 2; let d = ns_of_hex (tok "@") in eat '@'; Leaf (LCursor (d, n_of_string (tok ",)")))
    | 'd' -> i := !i + 2; let a = ns_of_hex (tok ",") in eat ','; Leaf (LDeque (a, ns_of_hex (tok ",)")))
    | 'g' -> i := !i + 2;
      if !i < n && s.[!i] = '~' then (incr i; Leaf (LGen []))
      else begin
        let cs = ref [ns_of_hex (tok ",)")] in
        while !i < n && s.[!i] = ',' do incr i; cs := ns_of_hex (tok ",)") :: !cs done;
        Leaf (LGen (List.rev !cs))
      end
    | 'C' -> i := !i + 2; let a = tree () in eat ','; let b = tree () in eat ')'; Chain (a, b)
    | 'T' -> incr i; let l = n_of_string (tok "(") in eat '('; let x = tree () in eat ')'; Take (l, x)
    | 'F' | 'R' -> i := !i + 2; let x = tree () in eat ')'; Fwd x
    | c -> failwith (Printf.sprintf "bad tree char %c in %s" c s) in
  let t = tree () in
  if !i <> n then failwith ("trailing input in tree " ^ s); t

(* printing: R( and F( both are Fwd in the model; the impl's text is normalised R( -> F( before comparing *)
let rec show (b : buf) : string =
  match b with
  | Leaf (LSlice l) -> "s:" ^ hex_of_ns l
  | Leaf (LBytes l) -> "b:" ^ hex_of_ns l
  | Leaf (LBytesMut l) -> "m:" ^ hex_of_ns l
  | Leaf (LCursor (l, p)) -> "c:" ^ hex_of_ns l ^ "@" ^ string_of_n p
  | Leaf (LDeque (a, b)) -> "d:" ^ hex_of_ns a ^ "," ^ hex_of_ns b
  | Leaf (LGen cs) -> "g:" ^ (if cs = [] then "~" else String.concat "," (List.map hex_of_ns cs))
  | Chain (a, b) -> "C(" ^ show a ^ "," ^ show b ^ ")"
  | Take (n, x) -> "T" ^ string_of_n n ^ "(" ^ show x ^ ")"
  | Fwd x -> "F(" ^ show x ^ ")"
let norm (s : string) : string = String.map (fun c -> if c = 'R' then 'F' else c) s
(* leaves replaced by their denotation: what C12 speaks about (limits and the inner sequences) *)
let rec abstract (b : buf) : string =
  match b with
  | Leaf l -> "[" ^ hex_of_ns (den (Leaf l)) ^ "]"
  | Chain (a, b) -> "C(" ^ abstract a ^ "," ^ abstract b ^ ")"
  | Take (n, x) -> "T" ^ string_of_n n ^ "(" ^ abstract x ^ ")"
  | Fwd x -> "F(" ^ abstract x ^ ")"

let split_on_first c s = match String.index_opt s c with None -> (s, "") | Some k -> (String.sub s 0 k, String.sub s (k + 1) (String.length s - k - 1))
let nlen l = List.length l
let getters_tbl = getters
let fwd_tbl = buf_forward

let run () =
  let cases = ref 0 and steps = ref 0 and bad = ref 0 and nontriv = ref 0 in
  let printed : (string, int) Hashtbl.t = Hashtbl.create 8 in
  let seen = Hashtbl.create 4096 in
  let dist = Hashtbl.create 64 in
  let bump k = Hashtbl.replace dist k (1 + try Hashtbl.find dist k with Not_found -> 0) in
  let samples = ref 0 in
  iter_lines (fun line ->
    match split_ws line with
    | "B" :: tree :: ops ->
      incr cases;
      let key = tree ^ " " ^ String.concat " " (List.map (fun o -> fst (split_on_first '=' o)) ops) in
      let fresh = not (Hashtbl.mem seen key) in
      if fresh then Hashtbl.add seen key ();
      let nontrivial = ref false in
      (* one line per case and PROPERTY (first three characters of the kind), at most 60 lines per property *)
      let reported : (string, unit) Hashtbl.t = Hashtbl.create 4 in
      let report kind detail = incr bad; let pre = String.sub kind 0 (min 3 (String.length kind)) in
        let c = (try Hashtbl.find printed pre with Not_found -> 0) in
        if not (Hashtbl.mem reported pre) && c < 60 then (Hashtbl.replace reported pre (); Hashtbl.replace printed pre (c + 1); Printf.printf "MISMATCH %s %s :: %s\n" kind detail line) in
      (try
        let st = ref (parse_tree tree) in
        (match !st with Leaf _ -> () | _ -> nontrivial := true);
        let stop = ref false in
        List.iter (fun opobs ->
          if not !stop then begin
            incr steps;
            let (op, rest) = split_on_first '=' opobs in
            let (obs, idesc) = split_on_first '@' rest in
            let f = String.split_on_char ':' op in
            let arg k = try n_of_string (List.nth f k) with _ -> N0 in
            let iarg k = int_of_n (arg k) in
            bump ("op_" ^ List.hd f);
            let r = den !st in
            let len = nlen r in
            let ipanic = (obs = "panic") in
            if ipanic then bump "panic";
            (* model step: (model obs, new state) or panic *)
            let mres : (string * buf) option =
              (match List.hd f with
               | "rem" -> Some (string_of_n (remaining !st), !st)
               | "has" -> Some ((if has_remaining !st then "1" else "0"), !st)
               | "chunk" | "fb" -> Some (hex_of_ns (chunk !st), !st)
               | "cv" -> let sl = cv take_len (arg 1) !st in
                 Some (Printf.sprintf "%d/%s/u1" (nlen sl) (if sl = [] then "~" else String.concat "," (List.map hex_of_ns sl)), !st)
               | "adv" | "cons" -> (match advance (arg 1) !st with Ok b -> Some ("ok", b) | _ -> None)
               | "cts" -> (match copy_to_slice (arg 1) !st with Ok (bs, b) -> Some (hex_of_ns bs, b) | _ -> None)
               | "tcs" -> (match try_copy_to_slice_d (arg 1) !st with
                           | Ok (TOk (bs, b)) -> Some ("ok:" ^ hex_of_ns bs, b)
                           | Ok (TErr (q, a)) -> Some (Printf.sprintf "err:%s:%s:*" (string_of_n q) (string_of_n a), !st)
                           | _ -> None)
               | "ctb" -> (match copy_to_bytes (arg 1) !st with Ok (bs, b) -> Some (hex_of_ns bs, b) | _ -> None)
               | "it" -> (match iter_take (nat_of_int (iarg 1)) !st [] with
                          | Ok (os, b) -> let rm = string_of_n (remaining b) in
                            Some (Printf.sprintf "%s/%s:%s" (if os = [] then "~" else String.concat "," (List.map (function Some x -> Printf.sprintf "%02x" (int_of_n x) | None -> "none") os)) rm rm, b)
                          | _ -> None)
               | "rd" -> (match reader_read (arg 1) !st with Ok (bs, b) -> Some (Printf.sprintf "%d:%s" (nlen bs) (hex_of_ns bs), b) | _ -> None)
               | "g" -> (match get getters_tbl fwd_tbl (coq_string (List.nth f 1)) (arg 2) !st with
                         | None -> Some ("unknown-method", !st)
                         | Some (Ok (TOk (v, b))) -> Some ("v:" ^ string_of_z v, b)
                         | Some (Ok (TErr (q, a))) -> Some (Printf.sprintf "err:%s:%s" (string_of_n q) (string_of_n a), !st)
                         | Some _ -> None)
               | "sl" -> let p = if List.nth f 1 = "-" then [] else List.init (String.length (List.nth f 1)) (fun k -> n_of_int (Char.code (List.nth f 1).[k] - 48)) in
                 (match set_limit_at p (arg 2) !st with Some b -> Some ("ok", b) | None -> Some ("nopath", !st))
               | _ -> Some ("unknown-op", !st)) in
            (* ---- direct laws on the implementation's observation, against the flat sequence r ---- *)
            let expect_panic why kind = if not ipanic then report kind (Printf.sprintf "op=%s expected a panic (%s), got %s" op why obs) in
            let expect_ok kind = if ipanic then report kind (Printf.sprintf "op=%s panicked inside its contract (%d bytes remain)" op len) in
            let consumed = ref 0 in
            (match List.hd f with
             | "rem" -> expect_ok "c09-remaining"; if not ipanic && obs <> string_of_int len then report "c09-remaining" (Printf.sprintf "remaining()=%s but the sequence has %d bytes" obs len)
             | "has" -> expect_ok "c09-remaining"; if not ipanic && obs <> (if len > 0 then "1" else "0") then report "c09-remaining" ("has_remaining()=" ^ obs)
             | "chunk" | "fb" -> let k = if List.hd f = "fb" then "c12-reader" else "c09-chunk" in
               expect_ok k;
               if not ipanic then begin let c = ns_of_hex obs in
                 if not (is_prefix c r) then report k ("chunk() is not a prefix of the sequence: " ^ obs)
                 else if c = [] && len > 0 then report k "chunk() empty while bytes remain" end
             | "cv" -> expect_ok "c09-chunks-vectored";
               if not ipanic then begin
                 (match String.split_on_char '/' obs with
                  | [cnt; sls; u] ->
                    let cnt = int_of_string cnt in
                    let sl = if sls = "~" then [] else List.map ns_of_hex (String.split_on_char ',' sls) in
                    if cnt > iarg 1 then report "c09-chunks-vectored" (Printf.sprintf "returned %d > dst.len()" cnt)
                    else if not (is_prefix (List.concat sl) r) then report "c09-chunks-vectored" ("concatenation of the slices is not a prefix of the sequence: " ^ sls)
                    else if len > 0 && iarg 1 > 0 && not (List.exists (fun s -> s <> []) sl) then report "c09-chunks-vectored" "no non-empty slice although bytes remain"
                    else if u <> "u1" then report "c09-chunks-vectored" "dst modified beyond the returned count"
                  | _ -> report "model-obs" ("unparsed cv observation " ^ obs)) end
             | "adv" | "cons" -> let k = if List.hd f = "cons" then "c12-reader" else "c09-advance" in
               if iarg 1 > len || (arg 1 <> n_of_int (iarg 1)) then expect_panic "n > remaining" k else (expect_ok k; consumed := iarg 1)
             | "cts" | "ctb" -> let k = if List.hd f = "cts" then "c09-copy-to-slice" else "c09-copy-to-bytes" in
               if iarg 1 > len then expect_panic "len > remaining" k
               else begin expect_ok k; consumed := iarg 1;
                 if not ipanic && ns_of_hex obs <> take_l (iarg 1) r then report k (Printf.sprintf "returned %s, the next %d bytes are %s" obs (iarg 1) (hex_of_ns (take_l (iarg 1) r))) end
             | "tcs" -> expect_ok "c09-copy-to-slice";
               if not ipanic then begin
                 if iarg 1 <= len then (consumed := iarg 1; if obs <> "ok:" ^ hex_of_ns (take_l (iarg 1) r) then report "c09-copy-to-slice" ("try_copy_to_slice returned " ^ obs))
                 else (match String.split_on_char ':' obs with
                       | "err" :: q :: a :: _ when q = string_of_int (iarg 1) && a = string_of_int len -> ()
                       | _ -> report "c09-copy-to-slice" (Printf.sprintf "try_copy_to_slice(%d) with %d bytes returned %s" (iarg 1) len obs)) end
             | "it" -> expect_ok "c09-into-iter";
               if not ipanic then begin
                 let k = iarg 1 in consumed := min k len;
                 let exp_items = List.init k (fun j -> if j < len then Printf.sprintf "%02x" (int_of_n (List.nth r j)) else "none") in
                 let rm = string_of_int (len - min k len) in
                 let exp = Printf.sprintf "%s/%s:%s" (if exp_items = [] then "~" else String.concat "," exp_items) rm rm in
                 if obs <> exp then report "c09-into-iter" (Printf.sprintf "iterator gave %s, expected %s" obs exp) end
             | "rd" -> expect_ok "c12-reader";
               if not ipanic then begin let k = min (iarg 1) len in consumed := k;
                 let exp = Printf.sprintf "%d:%s" k (hex_of_ns (take_l k r)) in
                 if obs <> exp then report "c12-reader" (Printf.sprintf "read gave %s, expected %s" obs exp) end
             | "g" ->
               (match spec_of_getter (coq_string (List.nth f 1)) with
                | None -> report "model-obs" ("no meaning for method name " ^ List.nth f 1)
                | Some d ->
                  let var = (d.g_kind = GKVar) in
                  let size = if var then iarg 2 else int_of_n d.g_size in
                  if var && size > 8 then expect_panic "nbytes > 8" "c10-nbytes"
                  else if len >= size then begin
                    expect_ok "c10-panic"; consumed := size;
                    let v = dec d.g_endian d.g_signed (take_l size r) in
                    if not ipanic && obs <> "v:" ^ string_of_z v then report "c10-value" (Printf.sprintf "%s returned %s, the next %d bytes %s denote %s" (List.nth f 1) obs size (hex_of_ns (take_l size r)) (string_of_z v)) end
                  else if d.g_try then begin
                    expect_ok "c10-short";
                    if not ipanic && obs <> Printf.sprintf "err:%d:%d" size len then report "c10-short" (Printf.sprintf "%s with %d of %d bytes returned %s" (List.nth f 1) len size obs) end
                  else expect_panic "not enough bytes" "c10-short")
             | _ -> ());
            (* ---- state after the step ---- *)
            if ipanic then begin
              stop := true; nontrivial := true;
              (match mres with None -> () | Some (mo, _) -> report "model-obs" (Printf.sprintf "op=%s implementation panicked, model gives %s" op mo))
            end else begin
              let ist = (try Some (parse_tree idesc) with _ -> None) in
              (match ist with
               | None -> report "model-state" ("unparsed state " ^ idesc)
               | Some ib ->
                 (* consumed exactly: the described state denotes the rest of the sequence *)
                 if List.hd f <> "sl" then begin
                   let exp = drop_l !consumed r in
                   if den ib <> exp then
                     report (match List.hd f with "g" -> "c10-consumed" | "rd" | "cons" | "fb" -> "c12-consumed" | _ -> "c09-consumed")
                       (Printf.sprintf "op=%s should consume exactly %d bytes leaving %s, the buffer now denotes %s" op !consumed (hex_of_ns exp) (hex_of_ns (den ib)))
                 end;
                 (match mres with
                  | None -> report "model-obs" (Printf.sprintf "op=%s model panics, implementation returned %s" op obs)
                  | Some (mo, mb) ->
                    let obs_eq = if String.length mo > 0 && mo.[String.length mo - 1] = '*' then (let p = String.sub mo 0 (String.length mo - 1) in String.length obs >= String.length p && String.sub obs 0 (String.length p) = p) else mo = obs in
                    if not obs_eq then report "model-obs" (Printf.sprintf "op=%s model=%s impl=%s" op mo obs);
                    if abstract mb <> abstract ib then report "c12-state" (Printf.sprintf "op=%s limits / inner sequences after the call: expected %s, implementation shows %s" op (abstract mb) (abstract ib))
                    else if show mb <> norm idesc then report "model-state" (Printf.sprintf "op=%s model=%s impl=%s" op (show mb) idesc);
                    st := ib (* continue from the implementation's own state *)))
            end
          end) ops
      with Failure m -> report "model-obs" ("driver: " ^ m));
      if !nontrivial && fresh then incr nontriv;
      if !samples < 8 && !nontrivial then (incr samples; Printf.printf "SAMPLE %s\n" line)
    | [] -> ()
    | _ -> incr bad; Printf.printf "MISMATCH model-obs unparsed-line :: %s\n" line);
  Printf.printf "STATS evaluations=%d steps=%d distinct_nontrivial=%d mismatches=%d\n" !cases !steps !nontriv !bad;
  Printf.printf "DIST %s\n" (String.concat " " (Hashtbl.fold (fun k v acc -> Printf.sprintf "%s=%d" k v :: acc) dist []))

(* E8 (model side): replays the adversary script the fault-injecting Buf logged (every reply it gave) through the extracted consumers of
   M6 (Adversary.v) and compares outcome, data, number of calls and the arguments of advance(); memory-safety observations of the harness
   (viol=) are reported as direct failures *)
open Model
type string = Stdlib.String.t
open Conv
let pool_byte i = let b = (i * 31 + 7) land 0xff in n_of_int (if b = 0xEE then 0x11 else b)
let pool off len = List.init len (fun i -> pool_byte (off + i))
let nth_opt l i = try Some (List.nth l i) with _ -> None
let split c s = if s = "-" || s = "" then [] else String.split_on_char c s
let pair s = match String.split_on_char ':' s with [a; b] -> (a, b) | _ -> failwith ("pair " ^ s)
(* tree parser *)
let parse_tree (s : string) : tree =
  let pos = ref 0 in
  let peek () = if !pos < String.length s then s.[!pos] else '$' in
  let num () = let st = !pos in while (match peek () with '0'..'9' -> true | _ -> false) do incr pos done; String.sub s st (!pos - st) in
  let expect c = if peek () = c then incr pos else failwith "tree" in
  let rec go () =
    match peek () with
    | 'A' -> incr pos; TAdv
    | 'G' -> incr pos; let o = num () in expect ':'; let l = num () in TGood (pool (int_of_string o) (int_of_string l))
    | 'T' -> incr pos; let l = num () in expect '('; let t = go () in expect ')'; TTake (n_of_string l, t)
    | 'C' -> incr pos; expect '('; let a = go () in expect ','; let b = go () in expect ')'; TChain (a, b)
    | _ -> failwith "tree" in
  go ()
let fuel = nat_of_int 4000
let grow0 = fun (_ : n) -> N0
let run () =
  let n = ref 0 and bad = ref 0 and nontriv = ref 0 and samples = ref 0 in
  let dist = Hashtbl.create 16 in
  let bump k = Hashtbl.replace dist k (1 + try Hashtbl.find dist k with Not_found -> 0) in
  iter_lines (fun line ->
    match split_ws line with
    | "Z" :: kvs ->
      incr n;
      let tbl = Hashtbl.create 16 in
      List.iter (fun kv -> match String.index_opt kv '=' with Some i -> Hashtbl.replace tbl (String.sub kv 0 i) (String.sub kv (i + 1) (String.length kv - i - 1)) | None -> ()) kvs;
      let g k = try Hashtbl.find tbl k with Not_found -> "-" in
      let report kind detail = incr bad; Printf.printf "MISMATCH %s %s :: %s\n" kind detail line in
      if g "viol" <> "0" then report "c17-memory" (Printf.sprintf "memory-safety observation on the implementation: %s" (g "detail"));
      (try
        let op, arg, arg2 = (match String.split_on_char ':' (g "op") with [a; b; c] -> (a, b, c) | _ -> failwith "op") in
        let tree = parse_tree (g "tree") in
        let rs = List.map (fun x -> if x = "!" then None else Some (n_of_string x)) (split ',' (g "R")) in
        let cs = List.map (fun x -> if x = "!" then None else let (o, l) = pair x in Some (pool (int_of_string o) (int_of_string l))) (split ',' (g "C")) in
        let advs = List.map (fun x -> let (c, p) = pair x in (c, p = "1")) (split ',' (g "A")) in
        let vs = List.map (fun x -> if x = "!" then None else
                     (match String.split_on_char '/' x with
                      | [c; sl] -> Some (n_of_string c, List.map (fun y -> let (o, l) = pair y in pool (int_of_string o) (int_of_string l)) (if sl = "" then [] else String.split_on_char '+' sl))
                      | _ -> failwith "vec")) (split ';' (g "V")) in
        if List.length rs + List.length cs + List.length advs + List.length vs > 3 then incr nontriv;
        bump ("op_" ^ op);
        let argbad = ref None in
        let adv = { a_rem = (fun i -> match nth_opt rs (int_of_nat i) with Some r -> r | None -> Some N0);
                    a_chunk = (fun i -> match nth_opt cs (int_of_nat i) with Some c -> c | None -> Some []);
                    a_adv = (fun i cnt -> match nth_opt advs (int_of_nat i) with
                                          | Some (c, p) -> if string_of_n cnt <> c && !argbad = None then argbad := Some (Printf.sprintf "advance call %d: model passes %s, implementation passed %s" (int_of_nat i) (string_of_n cnt) c); p
                                          | None -> false);
                    a_vec = (fun i -> match nth_opt vs (int_of_nat i) with Some v -> v | None -> None) } in
        let ctr_s k = Printf.sprintf "%d,%d,%d,%d" (int_of_nat k.k_rem) (int_of_nat k.k_chunk) (int_of_nat k.k_adv) (int_of_nat k.k_vec) in
        let narg = n_of_string arg and narg2 = n_of_string arg2 in
        (* model outcome as (outcome string, data string, ctr option) *)
        let of_tcs r = (match r with
          | AOk (TcsOk (_, bs), k) -> ("ok", hex_of_ns bs, Some k)
          | AOk (TcsErr (rq, av), k) -> (Printf.sprintf "err:%s:%s" (string_of_n rq) (string_of_n av), "-", Some k)
          | APanic -> ("panic", "-", None) | AUB -> ("UB", "-", None) | AHang -> ("hang", "-", None)) in
        let of3 r = (match r with AOk ((_, bs), k) -> ("ok", hex_of_ns bs, Some k) | APanic -> ("panic", "-", None) | AUB -> ("UB", "-", None) | AHang -> ("hang", "-", None)) in
        let fixed sz = of_tcs (try_get_fixed adv fuel tree (n_of_int sz) k0) in
        let prefill = List.init (min (int_of_string arg2) (int_of_string arg)) (fun _ -> n_of_int 0x5a) in
        let (mo, md, mk) =
          match op with
          | "g1" -> of_tcs (try_get_u8 adv tree k0)
          | "g2" -> fixed 2 | "g4" | "l4" -> fixed 4 | "g8" | "f8" -> fixed 8 | "g16" -> fixed 16
          | "p4" -> (match fixed 4 with (o, _, _) when String.length o > 3 && String.sub o 0 3 = "err" -> ("panic", "-", None) | x -> x)
          | "tcs" -> of_tcs (xtry_copy_to_slice adv fuel tree narg k0)
          | "cts" -> of3 (xcopy_to_slice adv fuel tree narg k0)
          | "ctb" -> of3 (xcopy_to_bytes adv grow0 fuel tree narg k0)
          | "rd" -> (match xreader_read adv fuel tree narg k0 with AOk ((_, bs), k) -> (Printf.sprintf "ok:%d" (List.length bs), hex_of_ns bs, Some k) | APanic -> ("panic", "-", None) | AUB -> ("UB", "-", None) | AHang -> ("hang", "-", None))
          | "it" ->
            let rec go i t k acc = if i = 0 then ("ok", hex_of_ns (List.rev acc), Some k) else
              (match xiter_next adv t k with
               | AOk (None, k) -> ("ok", hex_of_ns (List.rev acc), Some k)
               | AOk (Some (t, b), k) -> go (i - 1) t k (b :: acc)
               | APanic -> ("panic", "-", None) | AUB -> ("UB", "-", None) | AHang -> ("hang", "-", None)) in
            go (int_of_string arg) tree k0 []
          | "pbm" -> (match bm_put adv grow0 fuel tree { bm_data = prefill; bm_cap = narg } k0 with AOk ((_, b), k) -> ("ok", hex_of_ns b.bm_data, Some k) | APanic -> ("panic", "-", None) | AUB -> ("UB", "-", None) | AHang -> ("hang", "-", None))
          | "pv" -> of3 (vec_put adv fuel tree prefill k0)
          | "ps" -> (match sl_put adv fuel tree { s_room = narg; s_written = [] } k0 with AOk ((_, d), k) -> ("ok", hex_of_ns d.s_written, Some k) | APanic -> ("panic", "-", None) | AUB -> ("UB", "-", None) | AHang -> ("hang", "-", None))
          | "tv" ->
            (match tree with
             | TTake (limit, TAdv) ->
               (match take_chunks_vectored adv limit narg2 k0 with
                | AOk ((cnt, out), k) ->
                  let dl = int_of_string arg2 in
                  let parts = List.init dl (fun i -> match nth_opt out i with Some s -> hex_of_ns s | None -> "-") in
                  (Printf.sprintf "ok:%s" (string_of_n cnt), (if parts = [] then "-" else String.concat "|" parts), Some k)
                | APanic -> ("panic", "-", None) | AUB -> ("UB", "-", None) | AHang -> ("hang", "-", None))
             | _ -> failwith "tv tree")
          | _ -> failwith ("op " ^ op) in
        if !samples < 8 && mk <> None then (incr samples; Printf.printf "SAMPLE %s\n" (if String.length line > 300 then String.sub line 0 300 else line));
        bump ("outcome_" ^ (if String.length mo >= 3 then String.sub mo 0 3 else mo));
        if mo = "UB" then report "c17-model-ub" "the model reaches an unsafe primitive outside its precondition on this script"
        else if mo = "hang" then report "adv-fuel" "model ran out of fuel"
        else if mo <> g "out" then report "adv-outcome" (Printf.sprintf "model %s, implementation %s" mo (g "out"))
        else if md <> g "data" then report "adv-data" (Printf.sprintf "model data %s, implementation %s" md (g "data"))
        else begin
          (match mk with Some k -> if ctr_s k <> g "ctr" then report "adv-calls" (Printf.sprintf "model made calls (rem,chunk,adv,vec) = %s, implementation %s" (ctr_s k) (g "ctr")) | None -> ());
          (match !argbad with Some m -> report "adv-args" m | None -> ())
        end
      with Failure m -> report "adv-parse" m)
    | _ -> ());
  Printf.printf "STATS evaluations=%d distinct_nontrivial=%d mismatches=%d\n" !n !nontriv !bad;
  Printf.printf "DIST %s\n" (String.concat " " (Hashtbl.fold (fun k v acc -> (Printf.sprintf "%s=%d" k v) :: acc) dist []))
